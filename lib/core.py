"""Core of the check driver: build, run implementation and model on the same
cases, compare projected observables, evaluate direct predicates."""
import fcntl
import hashlib
import json
import os, shutil
import subprocess
import sys
import time

VERIF = os.path.dirname(os.path.dirname(os.path.abspath(__file__)))
BUILD = os.path.join(VERIF, "build")
COQ = os.path.join(VERIF, "coq")
REPO = os.environ.get("VERIF_REPO", "/repo")   # checks rebuild from /repo; a scratch tree can be named for mutation runs
GOENV = dict(os.environ, GOFLAGS="-mod=mod", GOPROXY="off", GOSUMDB="off", GOTOOLCHAIN="local",
             CGO_ENABLED="0")


def sh(cmd, cwd=None, env=None, timeout=1800, check=True, stdin=None, stdout=subprocess.PIPE):
    p = subprocess.run(cmd, cwd=cwd, env=env, timeout=timeout, stdin=stdin, stdout=stdout,
                       stderr=subprocess.STDOUT, shell=isinstance(cmd, str))
    if check and p.returncode != 0:
        raise RuntimeError("command failed (%d): %s\n%s" % (p.returncode, cmd, (p.stdout or b"").decode("utf8", "replace")[-4000:]))
    return p


def go_build(srcdir, out, race=False):
    """Build a harness module against REPO without editing its go.mod: a copy of go.mod/go.sum with the
    replace directive pointing at REPO is used through -modfile."""
    os.makedirs(os.path.join(BUILD, "gomod"), exist_ok=True)
    name = os.path.basename(os.path.dirname(srcdir)) + "-" + os.path.basename(srcdir)
    mod = os.path.join(BUILD, "gomod", name + ".mod")
    txt = open(os.path.join(srcdir, "go.mod")).read()
    import re as _re
    txt = _re.sub(r"replace github.com/ricochet1k/termemu => \S+", "replace github.com/ricochet1k/termemu => " + REPO, txt)
    open(mod, "w").write(txt)
    sh(["cp", os.path.join(REPO, "go.sum"), mod[:-4] + ".sum"])
    env = dict(GOENV)
    cmd = ["go", "build", "-modfile=" + mod, "-tags", "verif"]
    if race:
        env["CGO_ENABLED"] = "1"
        cmd.append("-race")
    cmd += ["-o", out, "."]
    return sh(cmd, cwd=srcdir, env=env, check=False)


class Lock:
    def __enter__(self):
        os.makedirs(BUILD, exist_ok=True)
        self.f = open(os.path.join(BUILD, ".lock"), "w")
        fcntl.flock(self.f, fcntl.LOCK_EX)
        return self

    def __exit__(self, *a):
        fcntl.flock(self.f, fcntl.LOCK_UN)
        self.f.close()


def file_hash(paths):
    h = hashlib.sha256()
    for p in sorted(paths):
        h.update(p.encode())
        with open(p, "rb") as f:
            h.update(f.read())
    return h.hexdigest()


def coq_sources(sub):
    out = []
    for root, _, files in os.walk(os.path.join(COQ, sub)):
        for fn in files:
            if fn.endswith(".v"):
                out.append(os.path.join(root, fn))
    return out


GEN_OUTPUTS = {"gen_keys": ["Gen/Gen_KeyTables.v", "Gen/Gen_KittySpec.v"], "gen_callgraph": ["Gen/Gen_CallGraph.v"],
               "gen_uniseg": ["Gen/Gen_Uniseg.v"]}


def build_all(log):
    """Regenerate translator output, rebuild proofs, extraction, driver and the
    Go harness from /repo's working tree.  Returns dict with build status."""
    status = {"coq_ok": True, "coq_log": "", "gen_ok": True, "gen_log": ""}
    with Lock():
        # 1. translators: regenerate Gen/*.v from /repo's working tree
        tools = os.path.join(VERIF, "tools")
        os.makedirs(os.path.join(COQ, "Gen"), exist_ok=True)
        for name in sorted(os.listdir(tools)) if os.path.isdir(tools) else []:
            gen = os.path.join(tools, name)
            if not name.startswith("gen_") or not os.path.isdir(gen):
                continue
            # generate into a scratch directory and replace a file under coq/Gen only when its text
            # changed, so that make does not recompile everything that depends on it on every run
            tmp = os.path.join(BUILD, "gen-tmp", name)
            shutil.rmtree(tmp, ignore_errors=True)
            os.makedirs(tmp, exist_ok=True)
            if name == "gen_callgraph":
                cmd = ["go", "run", ".", "-dir", REPO, "-o", os.path.join(tmp, "Gen_CallGraph.v")]
            else:
                cmd = ["go", "run", ".", "-repo", REPO, "-out", tmp]
            p = sh(cmd, cwd=gen, env=GOENV, check=False)
            if p.returncode != 0:
                status["gen_ok"] = False
                # the generated files this translator owns keep their last good text: only the properties whose
                # theorems depend on them lose their proof
                status.setdefault("gen_failed", {})[name] = GEN_OUTPUTS.get(name, [])
            for f in sorted(os.listdir(tmp)):
                dst = os.path.join(COQ, "Gen", f)
                new = open(os.path.join(tmp, f), "rb").read()
                if not os.path.exists(dst) or open(dst, "rb").read() != new:
                    with open(dst, "wb") as fh:
                        fh.write(new)
            status["gen_log"] += "[%s] " % name + (p.stdout or b"").decode("utf8", "replace")[-1500:]
        # 2. coq
        if not os.path.exists(os.path.join(COQ, "Makefile")):
            sh("coq_makefile -f _CoqProject -o Makefile", cwd=COQ)
        p = sh("timeout 1500 make -j16 -k 2>&1", cwd=COQ, check=False, timeout=1600)
        status["coq_ok"] = p.returncode == 0
        status["coq_log"] = (p.stdout or b"").decode("utf8", "replace")
        # 3. extraction + driver (only when the model changed)
        ml = os.path.join(BUILD, "ml")
        os.makedirs(ml, exist_ok=True)
        hv = file_hash(coq_sources("Model") + coq_sources("Gen") + [os.path.join(COQ, "Extract", "Extract.v"),
                                                                    os.path.join(VERIF, "ocaml", "driver.ml")])
        stamp = os.path.join(ml, "stamp")
        old = open(stamp).read() if os.path.exists(stamp) else ""
        if old != hv or not os.path.exists(os.path.join(ml, "modeldrv")):
            sh(["coqc", "-Q", COQ, "Termemu", os.path.join(COQ, "Extract", "Extract.v")], cwd=ml)
            sh("cp %s/ocaml/driver.ml . && ocamlfind ocamlopt -O3 -w -a model.mli model.ml driver.ml -o modeldrv" % VERIF, cwd=ml)
            open(stamp, "w").write(hv)
        # 4. harness, from /repo's working tree
        hdir = os.path.join(VERIF, "harness")
        p = go_build(hdir, os.path.join(BUILD, "harness"))
        status["harness_ok"] = p.returncode == 0
        status["harness_log"] = (p.stdout or b"").decode("utf8", "replace")[-3000:]
    return status


# ---------------------------------------------------------------------------
# running

def split_cases(text):
    """Case file text -> list of (id, text)"""
    cases = []
    cur = None
    for line in text.splitlines():
        if line.startswith("#"):
            if cur:
                cases.append(cur)
            cur = [line[1:].strip(), [line]]
        elif cur:
            cur[1].append(line)
    if cur:
        cases.append(cur)
    return [(i, "\n".join(ls) + "\n") for i, ls in cases]


def parse_output(text):
    """Output -> {case id: {"ops": [ [records] ], "problems": [(op, text)] }}; a record is a list of ints."""
    res = {}
    cur = None
    for line in text.splitlines():
        if not line:
            continue
        if line[0] == "#":
            cur = {"ops": [], "problems": [], "complete": False}
            res[line[1:].strip()] = cur
            continue
        if cur is None:
            continue
        if line[0] == "P":
            parts = line.split(" ", 3)
            cur["problems"].append((int(parts[2]), parts[3]))
            continue
        if line[0] == "X":
            cur["extra"] = cur.get("extra", []) + [line[2:]]
            continue
        rec = [int(x) for x in line.split()]
        if rec[0] == 1:
            cur["ops"].append([])
        if cur["ops"]:
            cur["ops"][-1].append(rec)
    return res


def run_impl(cases_text, workdir, mem_kb=6 * 1024 * 1024, per_batch_timeout=600):
    """Run the harness over the cases; if the process dies (OOM, fatal error,
    timeout) the case in progress is recorded as dead and the run continues
    after it."""
    cases = split_cases(cases_text)
    out_all = []
    dead = []
    i = 0
    harness = os.path.join(BUILD, "harness")
    while i < len(cases):
        batch = "".join(t for _, t in cases[i:])
        try:
            p = subprocess.run("ulimit -v %d; exec %s run" % (mem_kb, harness), shell=True, input=batch.encode(),
                               stdout=subprocess.PIPE, stderr=subprocess.DEVNULL, timeout=per_batch_timeout)
            out = p.stdout.decode("utf8", "replace")
            rc = p.returncode
        except subprocess.TimeoutExpired as e:
            out = (e.stdout or b"").decode("utf8", "replace")
            rc = -9
        out_all.append(out)
        if rc == 0:
            break
        # find the last case that was started
        started = [l[1:].strip() for l in out.splitlines() if l.startswith("#")]
        if not started:
            dead.append((cases[i][0], "harness died before the first case (rc=%s)" % rc))
            i += 1
            continue
        last = started[-1]
        idx = next(k for k in range(i, len(cases)) if cases[k][0] == last)
        dead.append((last, "process died (rc=%s): out of memory, fatal runtime error or time limit" % rc))
        i = idx + 1
    return "".join(out_all), dead


def run_model(cases_text, timeout=1200):
    p = subprocess.run([os.path.join(BUILD, "ml", "modeldrv")], input=cases_text.encode(), stdout=subprocess.PIPE,
                       stderr=subprocess.PIPE, timeout=timeout)
    if p.returncode != 0:
        raise RuntimeError("model driver failed: " + p.stderr.decode()[-2000:])
    return p.stdout.decode()


def run_model_parallel(cases_text, nparts=12, timeout=1800):
    """The model side is pure: run it on [nparts] slices of the cases at once (round robin, so that heavy cases are
    spread over the workers).  Output order differs from input order; parse_output keys by case id."""
    cases = split_cases(cases_text)
    if len(cases) < 2 * nparts:
        return run_model(cases_text, timeout)
    procs = []
    for k in range(nparts):
        part = "".join(t for _, t in cases[k::nparts])
        pr = subprocess.Popen([os.path.join(BUILD, "ml", "modeldrv")], stdin=subprocess.PIPE, stdout=subprocess.PIPE, stderr=subprocess.PIPE)
        procs.append((pr, part))
    import threading
    outs = [None] * nparts
    errs = [None] * nparts

    def feed(k):
        pr, part = procs[k]
        o, e = pr.communicate(part.encode(), timeout=timeout)
        outs[k], errs[k] = o.decode(), (pr.returncode, e.decode())
    ths = [threading.Thread(target=feed, args=(k,)) for k in range(nparts)]
    for t in ths:
        t.start()
    for t in ths:
        t.join()
    for rc, e in errs:
        if rc != 0:
            raise RuntimeError("model driver failed: " + e[-2000:])
    return "".join(outs)


def gen_cases(profile, seed, n, kinds="01", modes="0", extra=()):
    p = subprocess.run([os.path.join(BUILD, "harness"), "gen", "-profile", profile, "-seed", str(seed), "-n", str(n),
                        "-kinds", kinds, "-modes", modes] + list(extra), stdout=subprocess.PIPE, check=True)
    return p.stdout.decode()


# ---------------------------------------------------------------------------
# comparison

def regions_cover(model_regs, impl_regs):
    """Every cell the model announces must be announced by the implementation."""
    def cells(rs):
        s = set()
        for k in range(0, len(rs) - 3, 4):
            x, y, x2, y2 = rs[k:k + 4]
            if x2 - x > 400 or y2 - y > 400:
                continue
            for yy in range(y, y2):
                for xx in range(x, x2):
                    s.add((xx, yy))
        return s
    return cells(model_regs) <= cells(impl_regs)


def compare_case(cid, impl, model, tags, is_span):
    """Compare projected records.  Returns (mismatch or None, known_trigger or 0, ops compared)."""
    n = min(len(impl["ops"]), len(model["ops"]))
    for k in range(n):
        io, mo = impl["ops"][k], model["ops"][k]
        trig = mo[0][3]
        if trig and is_span:
            return None, trig, k
        if mo[0][2] != io[0][2]:
            return {"op": k, "what": "crash flag", "model": mo[0], "impl": io[0]}, 0, k
        if mo[0][2]:
            return None, 0, k
        if len(io) != len(mo):
            return {"op": k, "what": "record count", "model": len(mo), "impl": len(io)}, 0, k
        for a, b in zip(io, mo):
            if a[0] not in tags:
                continue
            if a[0] == 8:
                if not regions_cover(b[1:], a[1:]):
                    return {"op": k, "what": "announced regions do not cover the model's", "model": b, "impl": a}, 0, k
                continue
            if a[0] == 1:
                continue
            if a != b:
                return {"op": k, "what": "record %d differs" % a[0], "model": b, "impl": a}, 0, k
    if len(impl["ops"]) != len(model["ops"]):
        return {"op": n, "what": "number of observed operations", "model": len(model["ops"]), "impl": len(impl["ops"])}, 0, n
    return None, 0, n
