#!/usr/bin/env python3
"""Development helper: run a generator profile through implementation and model, summarise."""
import sys, collections, json
sys.path.insert(0, __file__.rsplit("/", 1)[0])
import core

def main():
    prof, seed, n = sys.argv[1], int(sys.argv[2]), int(sys.argv[3])
    kinds = sys.argv[4] if len(sys.argv) > 4 else "01"
    st = core.build_all(None)
    if not st["coq_ok"]:
        print(st["coq_log"][-3000:])
    if not st.get("harness_ok", True):
        print(st["harness_log"]); return
    cases = core.gen_cases(prof, seed, n, kinds)
    open(core.BUILD + "/cases.txt", "w").write(cases)
    impl_txt, dead = core.run_impl(cases, core.BUILD)
    model_txt = core.run_model(cases)
    open(core.BUILD + "/impl.txt", "w").write(impl_txt)
    open(core.BUILD + "/model.txt", "w").write(model_txt)
    impl, model = core.parse_output(impl_txt), core.parse_output(model_txt)
    tags = {1, 2, 3, 4, 5, 6, 7, 8}
    probs = collections.Counter()
    mism = collections.Counter()
    first = {}
    trig = 0
    for cid, m in model.items():
        if cid not in impl:
            continue
        is_span = "-k0-" in cid
        for op, text in impl[cid]["problems"]:
            key = text.split(":")[0][:60] if text.startswith("C01") else " ".join(w for w in text.split() if not w.strip("()[],/x").isdigit())[:70]
            probs[key] += 1
            first.setdefault("P " + key, cid)
        mm, tr, _ = core.compare_case(cid, impl[cid], m, tags, is_span)
        if tr:
            trig += 1
        if mm:
            key = mm["what"]
            mism[key] += 1
            first.setdefault("M " + key, (cid, mm))
    print("cases", len(model), "dead", dead[:5], "known-trigger cases", trig)
    print("direct predicate failures:")
    for k, v in probs.most_common(40):
        print("  %5d %s   e.g. %s" % (v, k, first["P " + k]))
    print("model/impl mismatches:")
    for k, v in mism.most_common(40):
        cid, mm = first["M " + k]
        print("  %5d %s   e.g. %s op %d" % (v, k, cid, mm["op"]))
        print("        model", str(mm["model"])[:300])
        print("        impl ", str(mm["impl"])[:300])

main()
