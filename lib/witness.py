#!/usr/bin/env python3
"""Run hand-written witness cases (corpus/*.json) on implementation and model.
A witness is {"id","property","w","h","mode","ops":[["feed","text with \\x escapes"],["resize",w,h]], "kinds":"01"}"""
import sys, json, os, glob
sys.path.insert(0, os.path.dirname(os.path.abspath(__file__)))
import core

def wc_table(data_chunks):
    # ask the harness for rune widths
    import subprocess
    runes = set()
    for d in data_chunks:
        for ch in d.decode("utf8", "replace"):
            if ord(ch) >= 128:
                runes.add(ord(ch))
    if not runes:
        return ""
    p = subprocess.run([os.path.join(core.BUILD, "harness"), "width"] + [str(r) for r in sorted(runes)], stdout=subprocess.PIPE, check=True)
    return p.stdout.decode().strip()

def to_bytes(s):
    return s.encode("utf8").decode("unicode_escape").encode("latin1") if "\\x" in s or "\\" in s else s.encode("utf8")

def esc(s):
    """text with \\e for ESC and \\xHH escapes; other characters are UTF-8"""
    out = bytearray()
    i = 0
    while i < len(s):
        if s[i] == "\\" and i + 1 < len(s):
            c = s[i + 1]
            if c == "e":
                out.append(27); i += 2; continue
            if c == "n":
                out.append(10); i += 2; continue
            if c == "r":
                out.append(13); i += 2; continue
            if c == "t":
                out.append(9); i += 2; continue
            if c == "b":
                out.append(8); i += 2; continue
            if c == "a":
                out.append(7); i += 2; continue
            if c == "\\":
                out.append(92); i += 2; continue
            if c == "x":
                out.append(int(s[i + 2:i + 4], 16)); i += 4; continue
        out += s[i].encode("utf8")
        i += 1
    return bytes(out)

def case_text(w):
    out = []
    for kind in w.get("kinds", "01"):
        chunks = [esc(o[1]) for o in w["ops"] if o[0] == "feed"]
        out.append("# %s-k%s-m%d" % (w["id"], kind, w.get("mode", 0)))
        out.append("100 %d %s %d %d" % (w.get("mode", 0), kind, w["w"], w["h"]))
        out.append(("101 " + wc_table(chunks)).strip())
        for o in w["ops"]:
            if o[0] == "feed":
                out.append("110 " + " ".join(str(b) for b in esc(o[1])))
            elif o[0] == "resize":
                out.append("111 %d %d" % (o[1], o[2]))
        out.append("199")
    return "\n".join(out) + "\n"

def run_witness(w, tags=(1, 2, 3, 4, 5, 6, 7, 8)):
    txt = case_text(w)
    impl_txt, dead = core.run_impl(txt, core.BUILD)
    model_txt = core.run_model(txt)
    impl, model = core.parse_output(impl_txt), core.parse_output(model_txt)
    res = []
    for cid, m in model.items():
        i = impl.get(cid, {"ops": [], "problems": []})
        mm, tr, _ = core.compare_case(cid, i, m, set(tags), "-k0-" in cid)
        res.append((cid, i["problems"], mm, tr, [d for d in dead if d[0] == cid]))
    return res

if __name__ == "__main__":
    core.build_all(None)
    for path in sys.argv[1:]:
        for w in json.load(open(path)):
            for cid, probs, mm, tr, dead in run_witness(w):
                status = "OK" if not probs and not mm and not dead else "FAIL"
                print(status, cid, "trig=%d" % tr)
                for p in probs[:4]:
                    print("   P", p)
                if mm:
                    print("   M op", mm["op"], mm["what"]); print("     model", str(mm["model"])[:400]); print("     impl ", str(mm["impl"])[:400])
                for d in dead:
                    print("   DEAD", d)
