"""Line-oriented correspondence engines (pure functions: key encoder, mouse
reports).  An engine directory engines/<name>/ holds a Go harness (gen / run)
that calls the real code, an Extract.v naming the extracted Coq entry point and
a driver.ml that only converts integers.  Every case line yields one answer
line on each side; lines are compared verbatim."""
import hashlib
import os
import subprocess

import core


def build_engine(name):
    src = os.path.join(core.VERIF, "engines", name)
    out = os.path.join(core.BUILD, "eng-" + name)
    os.makedirs(out, exist_ok=True)
    with core.Lock():
        hv = core.file_hash(core.coq_sources("Model") + core.coq_sources("Gen") +
                            [os.path.join(src, "Extract.v"), os.path.join(src, "driver.ml")])
        stamp = os.path.join(out, "stamp")
        old = open(stamp).read() if os.path.exists(stamp) else ""
        if old != hv or not os.path.exists(os.path.join(out, "drv")):
            core.sh("cp %s/Extract.v %s/Extract.v && cp %s/driver.ml %s/driver.ml" % (src, out, src, out))
            core.sh(["coqc", "-Q", core.COQ, "Termemu", "Extract.v"], cwd=out, timeout=900)
            mls = sorted(f for f in os.listdir(out) if f.endswith(".ml") and f != "driver.ml")
            mlis = [f + "i" for f in mls if os.path.exists(os.path.join(out, f + "i"))]
            core.sh("ocamlfind ocamlopt -O3 -w -a -package str -linkpkg %s %s driver.ml -o drv" % (" ".join(mlis), " ".join(mls)), cwd=out, timeout=900)
            open(stamp, "w").write(hv)
        hdir = os.path.join(src, "harness")
        p = core.go_build(hdir, os.path.join(out, "hm"))
        if p.returncode != 0:
            return None, (p.stdout or b"").decode("utf8", "replace")[-2000:]
    return out, ""


def run_engine(name, gen_args, describe, run, max_report=8, timeout=1500):
    """Generate cases, run both sides, compare.  [describe(case_line, impl_line, model_line)] -> text."""
    out, err = build_engine(name)
    if out is None:
        run.violations.append({"kind": "build", "what": "engine %s harness does not build against /repo: %s" % (name, err[-300:]),
                               "case": None, "op": None, "case_text": "", "expected": None, "actual": None, "step": False})
        return
    cases = subprocess.run([os.path.join(out, "hm"), "gen"] + gen_args, stdout=subprocess.PIPE, check=True, timeout=timeout).stdout
    # comment and blank lines produce no answer line: drop them so that answers stay aligned with cases
    cases = b"".join(l for l in cases.splitlines(keepends=True) if l.strip() and not l.startswith(b"#"))
    impl = subprocess.run([os.path.join(out, "hm"), "run"], input=cases, stdout=subprocess.PIPE, timeout=timeout)
    # the model side is pure: run it on 16 slices in parallel
    lines = cases.splitlines(keepends=True)
    nparts = 16 if len(lines) > 1500 else 1
    procs = []
    for k in range(nparts):
        part = b"".join(lines[k::nparts])      # round robin: heavy cases are spread over the workers
        pr = subprocess.Popen([os.path.join(out, "drv")], stdin=subprocess.PIPE, stdout=subprocess.PIPE)
        procs.append((pr, part))
    import threading
    outs = [None] * nparts

    def feed(k):
        pr, part = procs[k]
        outs[k] = pr.communicate(part, timeout=timeout)[0]
    ths = [threading.Thread(target=feed, args=(k,)) for k in range(nparts)]
    for t in ths:
        t.start()
    for t in ths:
        t.join()
    # one answer line per case line: interleave the answers back into case order
    split = [o.splitlines(keepends=True) for o in outs]
    merged = []
    for i in range(len(lines)):
        k, j = i % nparts, i // nparts
        merged.append(split[k][j] if j < len(split[k]) else b"\n")

    class M:
        pass
    model = M()
    model.returncode = max(pr.returncode for pr, _ in procs)
    model.stdout = b"".join(merged)
    if impl.returncode != 0:
        run.violations.append({"kind": "crash", "what": "engine %s: implementation harness died (rc=%d)" % (name, impl.returncode),
                               "case": None, "op": None, "case_text": "", "expected": None, "actual": None, "step": False})
    if model.returncode != 0:
        raise RuntimeError("model driver of engine %s failed" % name)
    cl = cases.decode().splitlines()
    il = impl.stdout.decode().splitlines()
    ml = model.stdout.decode().splitlines()
    run.stats["cases"] += len(cl)
    run.stats["ops_compared"] += min(len(il), len(ml))
    run.stats["ops_projected"] += min(len(il), len(ml))
    bad = 0
    seen = set()
    for k in range(min(len(il), len(ml))):
        a, b = il[k], ml[k]
        if k % 997 == 0:
            run.distinct.add(hashlib.md5(b.encode()).hexdigest())
        if a != b:
            bad += 1
            text, bucket = describe(cl[k] if k < len(cl) else "", a, b)
            if bucket in seen:
                continue
            seen.add(bucket)
            if len(seen) <= max_report:
                run.violations.append({"kind": "mismatch", "what": text, "case": "%s:line %d" % (name, k + 1), "op": k,
                                       "case_text": "", "engine": name, "case_line": cl[k] if k < len(cl) else "",
                                       "expected": b, "actual": a, "step": False})
    if len(il) != len(ml):
        run.violations.append({"kind": "mismatch", "what": "engine %s: %d implementation answers, %d model answers" % (name, len(il), len(ml)),
                               "case": None, "op": None, "case_text": "", "expected": None, "actual": None, "step": False})
    run.stats["engine_%s_disagreements" % name] = bad
    # distinct answers as a diversity measure
    run.distinct.update(hashlib.md5(l.split(" -1 ", 1)[-1].encode()).hexdigest() for l in ml[::101])
    if not run.samples:
        run.samples.append({"engine": name, "case_line": cl[len(cl) // 3] if cl else "", "answer": ml[len(ml) // 3] if ml else ""})
