#!/usr/bin/env python3
"""bin/check <property> quick|thorough [--replay file]

Decides one property: rebuilds the proofs (translator output regenerated from
/repo), rebuilds the harness from /repo's working tree, runs the
correspondence between the extracted model and the implementation on
generated cases (projection per property), evaluates direct predicates, and
writes evidence/<id>.json.  Exit 1 with a VIOLATION line when a proof
obligation, the correspondence or a predicate fails."""
import collections
import hashlib
import json
import os
import re
import subprocess
import sys
import time

sys.path.insert(0, os.path.dirname(os.path.abspath(__file__)))
import core
import witness as wit
from props import PROPS, KIND_NAMES

VERIF = core.VERIF


def theorem_cone(pid):
    """Files the property file depends on, theorem names stated in it, Qed count in the cone."""
    pf = os.path.join(core.COQ, "Properties", pid + ".v")
    if not os.path.exists(pf):
        return None
    extra_pfs = sorted(os.path.join(core.COQ, "Properties", f) for f in os.listdir(os.path.join(core.COQ, "Properties"))
                       if f.startswith(pid) and f.endswith(".v") and f != pid + ".v")
    seen = set()
    order = []

    def visit(path):
        if path in seen or not os.path.exists(path):
            return
        seen.add(path)
        src = open(path).read()
        for m in re.finditer(r"From Termemu Require Import ([^.]+)\.", src):
            for name in m.group(1).split():
                for sub in ("Model", "Spec", "Proofs", "Gen", "Properties"):
                    visit(os.path.join(core.COQ, sub, name + ".v"))
        order.append(path)
    visit(pf)
    for e in extra_pfs:
        visit(e)
    src = open(pf).read() + "".join(open(e).read() for e in extra_pfs)
    thms = re.findall(r"^\s*(?:Theorem|Corollary|Example)\s+(\w+)", src, re.M)
    qed = 0
    for p in order:
        qed += len(re.findall(r"\b(?:Qed|Defined)\.", open(p).read()))
    return {"file": pf, "files": order, "theorems": thms, "qed": qed, "property_files": [pf] + extra_pfs}


def forbidden_scan():
    bad = []
    pat = re.compile(r"\b(Admitted|admit|Axiom|Parameter|Conjecture|Hypothesis|bypass_check|Unset Guard|type-in-type|Admit Obligations)\b")
    for sub in ("Model", "Spec", "Proofs", "Gen", "Properties", "Extract"):
        for p in core.coq_sources(sub):
            src = re.sub(r"\(\*.*?\*\)", "", open(p).read(), flags=re.S)
            # Hypothesis/Variable inside a Section are fine; flag them only outside
            depth = 0
            for line in src.splitlines():
                if re.match(r"\s*Section\b", line):
                    depth += 1
                if re.match(r"\s*End\b", line) and depth > 0:
                    depth -= 1
                for m in pat.finditer(line):
                    if m.group(1) in ("Hypothesis",) and depth > 0:
                        continue
                    bad.append("%s: %s" % (os.path.relpath(p, VERIF), line.strip()[:100]))
    return bad


def assumptions_of(pid, cone=None):
    """Re-compile the property file(s) and capture what Print Assumptions prints.  The output is cached under
    build/assumptions keyed by the content of every file in the dependency cone (and the .vo files being present),
    so an unchanged cone is not re-compiled."""
    key = None
    if cone:
        files = sorted(cone["files"])
        if all(os.path.exists(f + "o") for f in files):
            key = core.file_hash(files)
            cpath = os.path.join(core.BUILD, "assumptions", pid + ".json")
            if os.path.exists(cpath):
                c = json.load(open(cpath))
                if c.get("key") == key and c.get("ok"):
                    return True, c["out"]
    ok, out = True, ""
    for f in sorted(os.listdir(os.path.join(core.COQ, "Properties"))):
        if f.startswith(pid) and f.endswith(".v"):
            p = core.sh(["coqc", "-Q", ".", "Termemu", os.path.join("Properties", f)], cwd=core.COQ, check=False, timeout=900)
            out += (p.stdout or b"").decode("utf8", "replace")
            ok = ok and p.returncode == 0
    if key and ok:
        os.makedirs(os.path.join(core.BUILD, "assumptions"), exist_ok=True)
        json.dump({"key": key, "ok": ok, "out": out}, open(os.path.join(core.BUILD, "assumptions", pid + ".json"), "w"))
    return ok, out


MERGE_RE = re.compile("[\u0300-\u036f\u200d\ufe0e\ufe0f\u20e3\u0e31\u0e33-\u0e3a\u0e47-\u0e4e\u1160-\u11ff\U0001f1e6-\U0001f1ff\U0001f3fb-\U0001f3ff]")


def merge_pieces(case_text):
    """Does the input of the case contain code points that extend a grapheme cluster (combining marks, ZWJ,
    variation selectors, keycap, Thai marks, conjoining jamo, regional indicators, emoji modifiers)?"""
    bs = b"".join(bytes(int(x) for x in l.split()[1:]) for l in case_text.splitlines() if l.startswith("110"))
    return MERGE_RE.search(bs.decode("utf8", "ignore")) is not None


def load_known():
    path = os.path.join(VERIF, "known_findings.json")
    if not os.path.exists(path):
        return {"findings": [], "fixed": []}
    return json.load(open(path))


def step_model_input(cases_text, impl):
    """Model input for step mode: before every operation the model is loaded with the state the
    implementation was observed in after the previous one."""
    out = []
    for cid, text in core.split_cases(cases_text):
        ops = impl.get(cid, {"ops": []})["ops"]
        k = 0
        for line in text.splitlines():
            tag = line.split(" ", 1)[0]
            if tag in ("110", "111"):
                if k > 0:
                    if k - 1 >= len(ops) or ops[k - 1][0][2]:
                        break  # implementation crashed or stopped: nothing to continue from
                    for rec in ops[k - 1]:
                        if rec[0] in (2, 3, 5, 6, 10):
                            out.append("120 " + " ".join(map(str, rec)))
                    out.append("121")
                k += 1
            out.append(line)
        if not out or out[-1] != "199":
            out.append("199")
    return "\n".join(out) + "\n"


def case_labels(cases_text):
    """{case id: [kind label per op]}"""
    res = {}
    for cid, text in core.split_cases(cases_text):
        labels = []
        pending = 0
        for line in text.splitlines():
            f = line.split()
            if not f:
                continue
            if f[0] == "105":
                pending = int(f[1])
            elif f[0] in ("110", "111"):
                labels.append(pending)
                pending = 0
        res[cid] = labels
    return res


def case_lines(cases_text, cid):
    for i, t in core.split_cases(cases_text):
        if i == cid:
            return t
    return ""


def shrink_case(text, fails):
    """Delta-debug the operation list of one case: drop operations while [fails] stays true."""
    lines = text.splitlines()
    head = [l for l in lines if l.split(" ", 1)[0] in ("#", "100", "101") or l.startswith("#")]
    ops = []
    cur = []
    for l in lines:
        t = l.split(" ", 1)[0]
        if l.startswith("#") or t in ("100", "101", "199"):
            continue
        cur.append(l)
        if t in ("110", "111"):
            ops.append(cur)
            cur = []

    def build(sel):
        return "\n".join(head + [l for o in sel for l in o] + ["199"]) + "\n"
    cur_ops = ops
    budget = 40
    n = 2
    while len(cur_ops) >= 2 and budget > 0:
        chunk = max(1, len(cur_ops) // n)
        reduced = False
        for i in range(0, len(cur_ops), chunk):
            cand = cur_ops[:i] + cur_ops[i + chunk:]
            budget -= 1
            if cand and fails(build(cand)):
                cur_ops = cand
                n = max(n - 1, 2)
                reduced = True
                break
            if budget <= 0:
                break
        if not reduced:
            if chunk == 1:
                break
            n = min(len(cur_ops), n * 2)
    return build(cur_ops)


def human_case(text):
    out = []
    for l in text.splitlines():
        f = l.split()
        if f and f[0] == "110":
            out.append("feed " + repr(bytes(int(x) for x in f[1:])))
        elif f and f[0] == "111":
            out.append("resize %s %s" % (f[1], f[2]))
        elif f and f[0] == "100":
            out.append("mode=%s buffer=%s size=%sx%s" % (["rune", "grapheme"][int(f[1])], ["span", "grid"][int(f[2])], f[3], f[4]))
    return out


class Run:
    def __init__(self, pid, tier, seed):
        self.pid, self.tier, self.seed = pid, tier, seed
        self.cfg = PROPS[pid]
        self.violations = []   # (kind, description, replay dict)
        self.known_hits = collections.Counter()
        self.stats = collections.Counter()
        self.samples = []
        self.kind_hist = collections.Counter()
        self.proj_hist = collections.Counter()   # operations per kind that were compared inside the property's projection
        self.wanted = set()                      # operation kinds the property's batches are meant to exercise
        self.size_hist = collections.Counter()
        self.distinct = set()

    # -- one batch of cases ------------------------------------------------
    def run_batch(self, name, cases_text, step, tags, kinds_wanted, ppref):
        impl_txt, dead = core.run_impl(cases_text, core.BUILD)
        impl = core.parse_output(impl_txt)
        model_in = step_model_input(cases_text, impl) if step else cases_text
        model = core.parse_output(core.run_model(model_in))
        labels = case_labels(cases_text)
        for cid, why in dead:
            self.add_violation("implementation died", "%s: %s" % (cid, why), cases_text, cid, None)
        if self.pid == "C20":
            self.lockstep(cases_text, impl, model)
        for cid, m in model.items():
            i = impl.get(cid)
            if i is None:
                continue
            is_span = "-k0-" in cid
            self.stats["cases"] += 1
            lab = labels.get(cid, [])
            hdr = case_lines(cases_text, cid).splitlines()[1].split()
            self.size_hist["%sx%s" % (hdr[3], hdr[4])] += 1
            first_trig = None
            marked_ops = set()      # operations on which a known-finding mark fired
            tainted_from = None     # from here on the implementation state is known to differ (lasting damage, or history mode)
            n = min(len(i["ops"]), len(m["ops"]))
            for k in range(len(m["ops"])):
                if m["ops"][k][0][3] & 26:
                    tainted_from = k
                    break
            for k in range(n):
                kind = lab[k] if k < len(lab) else 0
                self.kind_hist[KIND_NAMES.get(kind, str(kind))] += 1
                io, mo = i["ops"][k], m["ops"][k]
                trig = mo[0][3]
                if io[0][2] and not mo[0][2]:
                    # a panic of the implementation where the model has none is a violation wherever it happens,
                    # also on operations a known finding marks (those only excuse what the cells hold)
                    self.stats["ops_compared"] += 1
                    self.add_violation("crash", "op %d: model crash=%d implementation crash=%d" % (k, mo[0][2], io[0][2]), cases_text, cid, k,
                                       step=step)
                    break
                if trig and (is_span or trig & 4):
                    self.known_hits[trig] += 1
                    marked_ops.add(k)
                    if tainted_from is None and (trig & 26):
                        tainted_from = k
                    if first_trig is None:
                        first_trig = k
                    if step and not (trig & 26):
                        continue
                    break   # history mode, or lasting damage (D12 / D13): the rest of the case is tainted
                self.stats["ops_compared"] += 1
                # every operation is compared (damage done by an operation of the property's kind can surface at a
                # later operation of another kind, e.g. rows that share storage after a scroll); the projection
                # counts the operations of the kinds the property is about
                if not (kinds_wanted and kind not in kinds_wanted and step):
                    self.stats["ops_projected"] += 1
                    self.proj_hist[KIND_NAMES.get(kind, str(kind))] += 1
                self.distinct.add(hashlib.md5(repr((mo[1:3], kind)).encode()).hexdigest())
                if mo[0][2] != io[0][2]:
                    self.add_violation("crash", "op %d: model crash=%d implementation crash=%d" % (k, mo[0][2], io[0][2]), cases_text, cid, k,
                                       step=step)
                    break
                if mo[0][2]:
                    break
                bad = None
                for a, b in zip(io, mo):
                    if a[0] not in tags or a[0] == 1:
                        continue
                    if a[0] == 8:
                        if not core.regions_cover(b[1:], a[1:]):
                            bad = ("announced regions do not cover the changed cells", b, a)
                            break
                        continue
                    if a != b:
                        bad = ("record %d (%s) differs" % (a[0], REC_NAMES.get(a[0], "?")), b, a)
                        break
                if bad:
                    self.add_violation("mismatch", "op %d (%s): %s" % (k, KIND_NAMES.get(kind, "?"), bad[0]), cases_text, cid, k,
                                       expected=bad[1], actual=bad[2], step=step)
                    if not step:
                        break
            if not step and len(i["ops"]) != len(m["ops"]) and first_trig is None and not i.get("extra"):
                self.add_violation("mismatch", "number of operations observed differs", cases_text, cid, n)
            # direct predicates on the implementation
            for op, text in i["problems"]:
                if not text.startswith(ppref):
                    continue
                lasting = tainted_from is not None and op >= tainted_from
                if " panic" in text.split(":")[0] or " wedge" in text.split(":")[0]:
                    lasting = False    # a panic or a wedge is never excused by what a known finding does to the cells
                elif is_span and lasting and (m["ops"][tainted_from][0][3] & 16):
                    # KF-grapheme-merge: grapheme mode, span buffer; the model marked this history: from operation
                    # [tainted_from] on a row holds text that the span buffer, which derives the cells by segmenting the
                    # stored text again, cannot represent as the cells it was written as
                    self.known_hits["KF-grapheme-merge"] += 1
                    continue
                if lasting and (m["ops"][tainted_from][0][3] & 16) and (text.startswith("C11 ANSILine round trip") or
                                                                         text.startswith("C10 StyledLine") or
                                                                         text.startswith("C10 shadow copy differs")):
                    # a row holds text that segments, when read whole, into other cells than it was written as (model mark
                    # 16): its rendering cannot be read back cell by cell.  C11: known finding KF-C11-grapheme-pieces.
                    # C10: the harness's cell-level copy is not comparable there (the property lets a frontend keep what
                    # StyledLine returns, which it still gets exactly) - counted, not a finding.
                    self.known_hits["KF-C11-grapheme-pieces" if text.startswith("C11") else "C10-shadow-not-comparable"] += 1
                    continue
                if is_span and lasting:
                    # the row is known to be malformed from here on (D12 glyph wider than the screen, D13 raw invalid bytes)
                    self.known_hits["P:" + text.split(" ")[0]] += 1
                    continue
                if not is_span and lasting and (m["ops"][tainted_from][0][3] & 2):
                    self.known_hits["P:" + text.split(" ")[0]] += 1
                    continue
                self.add_violation("predicate", "op %d: %s" % (op, text), cases_text, cid, op)
            if len(self.samples) < 3 and self.stats["cases"] % 37 == 1:
                self.samples.append({"case": cid, "history": human_case(case_lines(cases_text, cid))[:8]})

    def lockstep(self, cases_text, impl, model):
        """C20: the span-backed and the grid-backed terminal, driven by the same history, compared directly
        (no model): cells, cursor, saved cursor, margins, replies, registers, callback digest.  Comparison of a
        case stops at the first operation the model marks as sanctioned/known span-only (trigger bits)."""
        for cid in list(impl.keys()):
            if "-k0-" not in cid:
                continue
            gid = cid.replace("-k0-", "-k1-")
            if gid not in impl:
                continue
            a, b = impl[cid], impl[gid]
            m = model.get(cid, {"ops": []})
            self.stats["lockstep_pairs"] += 1
            for k in range(min(len(a["ops"]), len(b["ops"]))):
                if k < len(m["ops"]) and m["ops"][k][0][3]:
                    self.known_hits["lockstep-sanctioned"] += 1
                    break
                self.stats["lockstep_ops"] += 1
                bad = None
                for ra, rb in zip(a["ops"][k], b["ops"][k]):
                    if ra[0] in (8,):
                        continue
                    if ra != rb:
                        bad = (ra, rb)
                        break
                if bad:
                    self.add_violation("lockstep", "op %d: span-backed and grid-backed terminals differ in record %d (%s)" % (
                        k, bad[0][0], REC_NAMES.get(bad[0][0], "state header")), cases_text, cid, k, expected=bad[1], actual=bad[0])
                    break

    def add_violation(self, kind, desc, cases_text, cid, op, expected=None, actual=None, step=False):
        if len(self.violations) >= 25:
            self.stats["violations_dropped"] += 1
            return
        self.violations.append({"kind": kind, "what": desc, "case": cid, "op": op, "case_text": case_lines(cases_text, cid),
                                "expected": expected, "actual": actual, "step": step})


REC_NAMES = {2: "screen header: size cursor saved margins autowrap style", 3: "row cells", 4: "reply bytes", 5: "mode registers / keyboard",
             6: "view strings", 7: "callback digest", 8: "announced regions"}


def main():
    args = sys.argv[1:]
    pid = args[0]
    tier = args[1] if len(args) > 1 and not args[1].startswith("--") else "quick"
    replay = None
    if "--replay" in args:
        replay = args[args.index("--replay") + 1]
    seed = int(os.environ.get("VERIF_SEED", "1"))
    t0 = time.time()
    cfg = PROPS[pid]
    st = core.build_all(None)
    run = Run(pid, tier, seed)
    proof = {"ok": True, "why": ""}

    # ---- proof obligations ----
    cone = theorem_cone(pid)
    assum_out = ""
    if not st.get("harness_ok", True):
        print("harness does not build against /repo:\n" + st["harness_log"])
        run.violations.append({"kind": "build", "what": "the harness no longer builds against /repo (hook or API changed): " + st["harness_log"][-400:],
                               "case": None, "op": None, "case_text": "", "expected": None, "actual": None, "step": False})
    if cone is None and os.environ.get("VERIF_DEV_NOPROOF"):
        cone = {"file": "", "files": [], "theorems": [], "qed": 0}
    elif cone is None:
        proof = {"ok": False, "why": "no property file"}
    else:
        vo = cone["file"] + "o"
        ok, assum_out = assumptions_of(pid, cone) if st["coq_ok"] or True else (False, "")
        if not ok:
            proof = {"ok": False, "why": "proof obligation no longer checks: " + assum_out.strip()[-1500:]}
        # a file of the cone that make could not compile (its stale .vo must not be trusted)
        failed = set(re.findall(r'File "\./([^"]+\.v)", line \d+, characters [^\n]*\nError', st["coq_log"]))
        failed |= set(m[:-1] for m in re.findall(r"\*\*\* \[[^\]]*?: (\S+\.vo)\] Error", st["coq_log"]))
        rel = set(os.path.relpath(f, core.COQ) for f in cone["files"])
        hit = sorted(f for f in failed if f in rel)
        if hit:
            proof = {"ok": False, "why": "proof obligation no longer checks: %s does not compile against the regenerated sources:\n%s" % (
                ", ".join(hit), "\n".join(l for l in st["coq_log"].splitlines() if "Error" in l or "File" in l)[-1200:])}
        for gname, outs in sorted(st.get("gen_failed", {}).items()):
            # a translator that rejects the source leaves its generated files at their last good text; the theorems
            # of this property are affected only when one of those files is in their dependency cone
            if not outs or any(o in rel for o in outs):
                log = st["gen_log"]
                at = log.find("[%s]" % gname)
                proof = {"ok": False, "why": "translator %s rejected the source: %s" % (gname, log[at:at + 1200] if at >= 0 else log[-1200:])}
    bad = forbidden_scan()
    if bad:
        proof = {"ok": False, "why": "forbidden construct in the development: " + "; ".join(bad[:5])}

    # ---- corpus / replay ----
    if replay:
        rp = json.load(open(replay))
        txt = rp.get("case_text", "")
        hdr = [l for l in txt.splitlines() if l.startswith("100 ")]
        if txt and hdr and len(hdr[0].split()) >= 7 and hdr[0].split()[6] == "1":
            import props as _props
            _props.spanterm_compare(run, txt)     # a case of the span-terminal engine (raw span records)
        elif txt:
            run.run_batch("replay", txt, rp.get("step", False), set(cfg["tags"]), set(), tuple(cfg["ppref"]))
    else:
        corpus = []
        for path in sorted(os.listdir(os.path.join(VERIF, "corpus"))):
            if path.endswith(".json"):
                corpus += [w for w in json.load(open(os.path.join(VERIF, "corpus", path))) if pid in w.get("properties", [w.get("property")])]
        if corpus and st.get("harness_ok", True):
            # witnesses outside the model's domain (grapheme clusters) run for the direct predicates only
            for part, tags in (([w for w in corpus if not w.get("predicates_only")], set(cfg["tags"])),
                               ([w for w in corpus if w.get("predicates_only")], set())):
                if part:
                    txt = "".join(wit.case_text(w) for w in part)
                    run.run_batch("corpus", txt, False, tags, set(), tuple(cfg["ppref"]))
            run.stats["corpus_cases"] = len(corpus)
        # ---- generated cases ----
        if st.get("harness_ok", True):
            for b in cfg["batches"]:
                n = b["thorough"] if tier == "thorough" else b["quick"]
                if n <= 0:
                    continue
                txt = core.gen_cases(b["profile"], seed, n, b.get("kinds", "01"), b.get("modes", "0"))
                run.run_batch(b["profile"], txt, b.get("step", False), set(b.get("tags", cfg["tags"])), set(b.get("kinds_wanted", [])),
                              tuple(cfg["ppref"]))
                run.wanted |= set(b.get("kinds_wanted", []))
            for extra in cfg.get("extra", []):
                extra(run, tier, seed)

    # ---- independent re-check of the compiled development (thorough tier of C19 only: it takes minutes) ----
    coqchk = None
    if tier == "thorough" and pid == "C19" and not replay:
        mods = []
        for sub_ in ("Model", "Spec", "Proofs", "Gen", "Properties"):
            for p_ in core.coq_sources(sub_):
                if os.path.exists(p_ + "o"):
                    mods.append("Termemu.%s.%s" % (sub_, os.path.basename(p_)[:-2]))   # -Q . Termemu: the directory is part of the name
        p_ = core.sh(["coqchk", "-silent", "-o", "-Q", ".", "Termemu"] + sorted(set(mods)), cwd=core.COQ, check=False, timeout=7200)
        out_ = (p_.stdout or b"").decode("utf8", "replace")
        coqchk = {"exit": p_.returncode, "modules": len(set(mods)), "tail": out_[-1500:]}
        if p_.returncode != 0:
            proof = {"ok": False, "why": "coqchk rejected the compiled development: " + out_[-800:]}

    # ---- verdict ----
    known = load_known()
    os.makedirs(os.path.join(VERIF, "replays"), exist_ok=True)
    for old in os.listdir(os.path.join(VERIF, "replays")):
        if old.startswith(pid + "-") and not replay:
            os.remove(os.path.join(VERIF, "replays", old))
    # runs against a scratch tree (VERIF_REPO, used for seeded changes) must not overwrite the evidence of /repo
    evdir = os.path.join(VERIF, "evidence") if not os.environ.get("VERIF_REPO") else os.path.join(core.BUILD, "evidence-scratch")
    if replay:
        evdir = os.path.join(core.BUILD, "evidence-replay")   # a replay covers one case: it must not replace the evidence of a full run
    os.makedirs(evdir, exist_ok=True)
    exit_code = 0
    lines = []
    # known findings of this property: re-execute the witness, report
    for kf in known["findings"]:
        if pid not in kf["properties"]:
            continue
        lines.append("KNOWN-FINDING: property=%s %s (%s)" % (pid, kf["what"], kf["id"]))
    reported = 0
    for v in run.violations:
        h = hashlib.md5((v["what"] + (v["case"] or "")).encode()).hexdigest()[:10]
        path = os.path.join(VERIF, "replays", "%s-%s.json" % (pid, h))
        v2 = dict(v)
        v2["property"] = pid
        v2["history"] = human_case(v["case_text"])
        v2["replay_cmd"] = "bin/check %s --replay %s" % (pid, path)
        json.dump(v2, open(path, "w"), indent=1)
        if reported < 5:
            lines.append("VIOLATION property=%s replay=%s" % (pid, path))
            lines.append("  " + v["what"] + "  [" + str(v["case"]) + "]")
        reported += 1
        exit_code = 1
    broken = getattr(run, "corr_broken", [])
    if broken and not run.violations and proof["ok"]:
        # the correspondence no longer checks although no observation the property speaks about differs: the model is no
        # longer shown to describe the code, so the theorems no longer speak about it
        path = os.path.join(VERIF, "replays", "%s-correspondence.json" % pid)
        json.dump({"property": pid, "broken": broken[0]["correspondence"], "failing_input_found": False, "instances": broken[:5]},
                  open(path, "w"), indent=1)
        lines.append("VIOLATION property=%s replay=%s no-failing-input-found" % (pid, path))
        lines.append("  " + broken[0]["what"] + "  [" + str(broken[0]["case"]) + "]")
        exit_code = 1
    if not proof["ok"]:
        path = os.path.join(VERIF, "replays", "%s-proof.json" % pid)
        json.dump({"property": pid, "broken": proof["why"], "theorems": cone["theorems"] if cone else [],
                   "failing_input_found": bool(run.violations)}, open(path, "w"), indent=1)
        if run.violations:
            lines.append("VIOLATION property=%s replay=%s" % (pid, path))
        else:
            lines.append("VIOLATION property=%s replay=%s no-failing-input-found" % (pid, path))
        lines.append("  " + proof["why"][:600])
        exit_code = 1

    wall = time.time() - t0
    assumptions = []
    for m in re.finditer(r"Closed under the global context|Axioms:\n(?:.+\n)+", assum_out):
        assumptions.append(m.group(0).strip())
    # operation kinds a batch is meant to exercise but which no compared operation had: a gap of the
    # generator (the machinery), reported here and on stdout, never a verdict about the code
    gaps = sorted(KIND_NAMES.get(k, str(k)) for k in run.wanted if not run.proj_hist.get(KIND_NAMES.get(k, str(k)))) if not replay else []
    for g in gaps:
        print("NOTE generator gap: no compared operation of kind '%s' in this run" % g)
    ev = {
        "property_id": pid, "tier": tier, "seed": seed, "level": "proof", "wall_s": round(wall, 1),
        "violations": len(run.violations) + (0 if proof["ok"] else 1) + (1 if (getattr(run, "corr_broken", []) and not run.violations and proof["ok"]) else 0),
        "coverage": {
            "obligations": cone["qed"] if cone else 0,
            "discharged": (cone["qed"] if cone else 0) if proof["ok"] else 0,
            "checker_cmd": "cd /verif/coq && make -j16 (coqc 8.16.1, full .vo build) ; coqc Properties/%s.v" % pid,
            "trusted_base": TRUSTED,
            "theorems": cone["theorems"] if cone else [],
            "files_in_cone": [os.path.relpath(p, core.COQ) for p in (cone["files"] if cone else [])],
            "print_assumptions": sorted(set(assumptions)),
            "evaluations": run.stats["cases"],
            "distinct_nontrivial": len(run.distinct),
            "rule": "evaluations = generated or corpus histories run through both the implementation (Go, -tags verif) and the extracted model; "
                    "distinct_nontrivial = distinct (screen header, first row, operation kind) observations among compared operations",
            "operations_compared": run.stats["ops_compared"],
            "operations_in_projection": run.stats["ops_projected"],
            "traces_validated_against_impl": run.stats["cases"],
            "operation_kinds": dict(run.kind_hist),
            "operation_kinds_in_projection": dict(run.proj_hist),
            "generator_gaps": gaps,
            "sizes": dict(run.size_hist.most_common(12)),
            "known_finding_hits": {str(k): v for k, v in run.known_hits.items()},
            "corpus_cases": run.stats.get("corpus_cases", 0),
            "coqchk": coqchk,
            "samples": run.samples or [{"note": "no generated case sampled"}],
            "extra": {k: v for k, v in run.stats.items() if k not in ("cases", "ops_compared", "ops_projected")},
        },
        "assumptions": cfg.get("assumptions", []) + COMMON_ASSUMPTIONS,
    }
    json.dump(ev, open(os.path.join(evdir, pid + ".json"), "w"), indent=1)
    for l in lines:
        print(l)
    print("%s %s: %d histories, %d operations compared (%d in projection), %d theorems, %d Qed in cone, proof %s, %.1fs" % (
        pid, tier, run.stats["cases"], run.stats["ops_compared"], run.stats["ops_projected"], len(cone["theorems"]) if cone else 0,
        cone["qed"] if cone else 0, "ok" if proof["ok"] else "BROKEN", wall))
    sys.exit(exit_code)


TRUSTED = [
    "Coq 8.16.1 kernel and its vm_compute machine (no native_compute)",
    "translator /verif/tools/gogen (Go AST -> Gen/*.v), regenerated from /repo on every run",
    "extraction with ExtrOcamlBasic only (its Extract Inductive for bool, option, unit, list, prod, sumbool, comparison; no Extract Constant) and /verif/ocaml/driver.ml (integer conversion and printing only)",
    "correspondence check: Go harness (-tags verif hook file /repo/verif_hooks.go), generators, canonical integer encoding of observations",
    "width oracle uniseg.StringWidth modelled as a per-case table; unicode/utf8 re-implemented in Model/Parser.v",
]
COMMON_ASSUMPTIONS = [
    "the model is tied to the code by differential testing on generated histories, not by proof",
    "Go int is at least 32 bits; CSI parameters saturate at 65535 (fix commit), so model integers are unbounded Z",
]

if __name__ == "__main__":
    main()
