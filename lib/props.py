"""Per-property configuration of the correspondence check: generator batches,
projection (record tags compared), operation kinds attributed to the property,
and which direct-predicate lines (prefix) belong to it."""

KIND_NAMES = {0: "unlabelled", 1: "text", 2: "c0-motion", 3: "csi-motion", 4: "erase", 5: "scroll", 6: "sgr", 7: "mode", 8: "query",
              9: "kbd", 10: "string/ignored", 11: "resize", 12: "hostile-bytes", 13: "other-c0", 14: "margins", 15: "alt-screen"}

ALL = [2, 3, 4, 5, 6, 7]          # everything but announced regions
SCREEN = [2, 3]

def B(profile, quick, thorough, **kw):
    d = {"profile": profile, "quick": quick, "thorough": thorough}
    d.update(kw)
    return d

def mouse_engine(run, tier, seed):
    import lineengine
    modes = ["off", "press", "press/release", "button-motion", "any-motion"]
    encs = ["X10", "UTF-8", "SGR"]

    def describe(case, impl, model):
        f = case.split()
        mode, enc = int(f[0]), int(f[1])
        name = "%s/%s" % (modes[mode] if 0 <= mode < 5 else mode, encs[enc] if 0 <= enc < 3 else enc)
        ia, ma = impl.split(" -1 ", 1)[-1], model.split(" -1 ", 1)[-1]
        kind = "panic" if ia.startswith("2 ") else ("report where none is due" if ma.startswith("0 0") and not ia.startswith("0 0") else
                                                    ("no report where one is due" if ia.startswith("0 0") else "different report bytes"))
        return ("SendMouseRaw(mode=%s btn=%s press=%s mods=%s x=%s y=%s writer=%s): %s; status/calls/bytes expected [%s] got [%s]" % (
            name, f[2], f[3], f[4], f[5], f[6], f[7:], kind, ma, ia), (mode, enc, kind))
    lineengine.run_engine("mouse", [], describe, run)


def keys_engine(run, tier, seed):
    import lineengine

    def describe(case, impl, model):
        f = case.split()
        ia, ma = (impl + " ").split(" -1 ", 1)[-1].strip(), (model + " ").split(" -1 ", 1)[-1].strip()
        if f and f[0] == "1":
            return ("encodeKey case [%s] (tag flags mok appcursor code rune mod event shifted base text...): expected bytes [%s] got [%s]" % (
                case, ma, ia), ("sample", f[1] if len(f) > 1 else "", f[5] if len(f) > 5 else ""))
        return ("encodeKey bucket [%s] (256 modifier masks x 4 event values): hash expected %s got %s" % (case, ma, ia), ("bucket", case))
    lineengine.run_engine("keys", ["thorough" if tier == "thorough" else "quick", "-seed", str(seed)], describe, run, timeout=3000)


def conc_engine(run, tier, seed):
    """Runtime part of C15 (supporting evidence, not proof): callbacks assert the lock is held, the loop is
    probed at every read boundary, concurrent API stress under the race detector with a deadlock watchdog."""
    import os, subprocess, re
    import core
    src = os.path.join(core.VERIF, "engines", "conc", "harness")
    out = os.path.join(core.BUILD, "eng-conc")
    os.makedirs(out, exist_ok=True)
    with core.Lock():
        p = core.go_build(src, os.path.join(out, "hc"), race=True)
        race = p.returncode == 0
        if not race:
            p = core.go_build(src, os.path.join(out, "hc"))
            if p.returncode != 0:
                run.violations.append({"kind": "build", "what": "concurrency harness does not build against /repo: " + (p.stdout or b"").decode()[-300:],
                                       "case": None, "op": None, "case_text": "", "expected": None, "actual": None, "step": False})
                return
    args = [os.path.join(out, "hc"), "-outdir", os.path.join(out, "logs"), "-seed", str(seed), "-expect-d29=false", "-expect-d43=false", "-expect-d38=true", "-stall", "30s", "-deadline", "1s", "-par", "32"]
    if not race:
        args += ["-norace-reason", "go build -race failed in this environment"]
    if tier == "thorough":
        args += ["-dur", "20s", "-iters", "400"]
    else:
        args += ["-dur", "3s", "-iters", "60"]
    p = subprocess.run(args, stdout=subprocess.PIPE, stderr=subprocess.STDOUT, timeout=900, cwd=out)
    text = p.stdout.decode("utf8", "replace")
    run.stats["conc_race_detector"] = 1 if race else 0
    for line in text.splitlines():
        m = re.match(r"FINDING (\S+) count=(\d+) expected=(\S+)(.*)", line)
        if m:
            kind, count, exp, rest = m.group(1), int(m.group(2)), m.group(3), m.group(4)
            run.stats["conc_finding_" + kind] = count
            if exp.startswith("yes"):
                run.known_hits["conc:" + kind] += count
            else:
                run.violations.append({"kind": "runtime", "what": "concurrency harness: %s count=%d%s" % (kind, count, rest[:300]),
                                       "case": "conc:" + kind, "op": None, "case_text": "", "expected": None, "actual": line, "step": False})
        m = re.match(r"(OK|BAD) (\S+)(.*)", line)
        if m:
            run.stats["conc_%s_%s" % (m.group(2), m.group(1))] = 1
            run.stats["cases"] += 1
            run.distinct.add(m.group(2))
            nums = re.findall(r"(\w+)=(\d+)", m.group(3))
            for k, v in nums[:6]:
                run.stats["conc_%s_%s" % (m.group(2), k)] = int(v)
                run.stats["ops_compared"] += int(v) if k in ("ops", "callbacks", "cuts", "probes") else 0
    run.samples.append({"engine": "conc", "output_tail": text.splitlines()[-12:]})


def tty_engine(run, tier, seed):
    """C11, TTY mirror: (1) the real TTYFrontend's bytes per step vs the model frontend fed with the same
    callbacks (verbatim); (2) end-to-end on the implementation: a real outer terminal interprets the bytes;
    outer = inner inside the region, untouched outside, cursor as specified, silent when detached."""
    import os, re, subprocess
    import core, lineengine
    out, err = lineengine.build_engine("tty")
    if out is None:
        run.violations.append({"kind": "build", "what": "tty harness does not build against /repo: " + err[-300:], "case": None, "op": None,
                               "case_text": "", "expected": None, "actual": None, "step": False})
        return
    n = 300 if tier == "thorough" else 40
    for name, sd, extra in (("narrow", seed, []), ("wide", seed + 1, ["-wide"]), ("grapheme", seed + 2, ["-wide", "-comb"])):
        cases, real = os.path.join(out, "c_%s.txt" % name), os.path.join(out, "r_%s.txt" % name)
        # the third run is in grapheme mode with marks, joiners and selectors merged late into narrow and wide
        # characters: end-to-end predicate only (the model frontend is not run on it)
        p = subprocess.run([os.path.join(out, "hm"), "-n", str(n), "-seed", str(sd), "-mode", "1" if name == "grapheme" else "0",
                            "-cases", cases, "-real", real] + extra,
                           stdout=subprocess.PIPE, stderr=subprocess.STDOUT, timeout=1200)
        text = p.stdout.decode("utf8", "replace")
        if p.returncode != 0:
            run.violations.append({"kind": "crash", "what": "tty harness failed: " + text[-300:], "case": "tty:" + name, "op": None, "case_text": "",
                                   "expected": None, "actual": None, "step": False})
            continue
        # end-to-end predicate on the implementation alone
        kind = "?"
        for line in text.splitlines():
            m = re.match(r"E2E (\w+) ", line)
            if m:
                kind = m.group(1)
                st = re.search(r"steps=(\d+) attached=(\d+)", line)
                run.stats["cases"] += int(st.group(1))
                run.stats["ops_compared"] += int(st.group(1))
            m = re.search(r"inside-region cells equal: ok=(\d+) bad=(\d+) \(bad with a glyph cut by the region edge=(\d+), other=(\d+)\)", line)
            if m:
                run.known_hits["tty-cut-glyph-inside"] += int(m.group(3))
                if int(m.group(4)):
                    run.violations.append({"kind": "predicate", "what": "TTY mirror (%s, %s): %s steps where outer cells differ from the inner screen inside the region with no wide glyph cut by an edge" % (kind, name, m.group(4)),
                                           "case": "tty:%s:%s" % (name, kind), "op": None, "case_text": "", "expected": None, "actual": line, "step": False})
            m = re.search(r"outside-region cells untouched: ok=(\d+) bad=(\d+) \(cut=(\d+), other=(\d+)\)", line)
            if m:
                run.known_hits["tty-cut-glyph-outside"] += int(m.group(3))
                if int(m.group(4)):
                    run.violations.append({"kind": "predicate", "what": "TTY mirror (%s, %s): %s steps where the frontend changed outer cells outside the attach region" % (kind, name, m.group(4)),
                                           "case": "tty:%s:%s" % (name, kind), "op": None, "case_text": "", "expected": None, "actual": line, "step": False})
            m = re.search(r"grapheme pieces .*: inside=(\d+) outside=(\d+)", line)
            if m:
                run.known_hits["KF-C11-grapheme-pieces"] += int(m.group(1)) + int(m.group(2))
            m = re.search(r"attach region empty after clamping=(\d+)", line)
            if m:
                run.known_hits["tty-empty-attach-region"] += int(m.group(1))
            m = re.search(r"outer cursor as specified: ok=(\d+) bad=(\d+)", line)
            if m and int(m.group(2)):
                run.violations.append({"kind": "predicate", "what": "TTY mirror (%s, %s): outer cursor not placed/hidden as specified in %s steps: %s" % (kind, name, m.group(2), line.strip()),
                                       "case": "tty:%s:%s" % (name, kind), "op": None, "case_text": "", "expected": None, "actual": line, "step": False})
            m = re.search(r"detached steps=(\d+) silent=(\d+)", line)
            if m and m.group(1) != m.group(2):
                run.violations.append({"kind": "predicate", "what": "TTY frontend (%s, %s) wrote bytes while detached in %d of %s detached steps (only a show-cursor at Detach is allowed)" % (
                    kind, name, int(m.group(1)) - int(m.group(2)), m.group(1)), "case": "tty:%s:%s" % (name, kind), "op": None, "case_text": "",
                    "expected": None, "actual": line, "step": False})
        if name == "grapheme":
            continue
        # model frontend (repaired code, rp=1) fed with the real callbacks: bytes per step, verbatim
        mp = subprocess.run([os.path.join(out, "drv"), "1", "1"], stdin=open(cases), stdout=subprocess.PIPE, timeout=1800)
        rl = [l for l in open(real).read().splitlines() if l.startswith("200") or l.startswith("#")]
        ml = [l for l in mp.stdout.decode().splitlines() if l.startswith("200") or l.startswith("#")]
        bad = 0
        cid = ""
        for a, b in zip(rl, ml):
            if a.startswith("#"):
                cid = a
                continue
            run.stats["ops_projected"] += 1
            run.distinct.add(a[:60])
            if a != b:
                bad += 1
                if bad <= 2:
                    f = lambda l: bytes(int(x) for x in l.split()[1:])
                    run.violations.append({"kind": "mismatch", "what": "TTYFrontend bytes differ from the model frontend (%s %s): real %r model %r" % (name, cid, f(a)[:120], f(b)[:120]),
                                           "case": "tty:" + cid, "op": None, "case_text": "", "expected": b, "actual": a, "step": False})
        if len(rl) != len(ml):
            run.violations.append({"kind": "mismatch", "what": "tty engine: %d real lines, %d model lines" % (len(rl), len(ml)), "case": None, "op": None,
                                   "case_text": "", "expected": None, "actual": None, "step": False})
        run.stats["tty_%s_steps_differing" % name] = bad
    if not run.samples:
        run.samples.append({"engine": "tty", "note": "inner terminal with a real TTYFrontend attached to a random region; bytes per step compared with the model frontend"})


def io_engine(run, tier, seed):
    import lineengine
    kinds = {1: "read loop", 3: "Terminal.Write", 4: "TeeBackend", 5: "Resize forwarding", 6: "PTY winsize"}

    def describe(case, impl, model):
        f = case.split()
        k = int(f[0]) if f else 0
        ia, ma = (impl + " ").split(" -1 ", 1)[-1].strip(), (model + " ").split(" -1 ", 1)[-1].strip()
        return ("%s case [%s]: expected [%s] got [%s]" % (kinds.get(k, "kind %d" % k), case[:200], ma[:200], ia[:200]), (k, ma[:12] == ia[:12]))
    lineengine.run_engine("io", [str(seed)] + ([] if tier == "thorough" else ["quick"]), describe, run, timeout=3000)


# clusters used by the grapheme-mode segmentation check (each starts with a base character, so the
# boundary before it is a cluster boundary whatever precedes it)
GCUT_PLAIN = ["a", "b", "xyz", "q", " ", "\u4e2d", "\u65e5\u672c", "\u00e9", "\U0001f600", "\U0001f439", "\u20ac"]
GCUT_CLASSES = {
    "combining": ["e\u0301", "a\u0308\u0323", "o\u0302"],
    "zwj": ["\U0001f468\u200d\U0001f469\u200d\U0001f467", "\U0001f3f3\ufe0f\u200d\U0001f308"],
    "modifier": ["\U0001f469\U0001f3fd"],
    "flags": ["\U0001f1fa\U0001f1f8", "\U0001f1e9\U0001f1ea"],
    "vs16": ["\u263a\ufe0f", "\u00a9\ufe0f"],
    "keycap": ["1\ufe0f\u20e3"],
    "jamo": ["\u1100\u1161\u11a8"],
    "hangul": ["\ud55c"],
    "thai": ["\u0e01\u0e33", "\u0e19\u0e49\u0e33"],
}
GCUT_UNITS = GCUT_PLAIN + [u for c in GCUT_CLASSES.values() for u in c]
GCUT_NARROW = ["a", "b", "xyz", "q", " ", "\u00e9", "\u20ac", "e\u0301", "a\u0308\u0323", "o\u0302"]


def _case_of(lines, cid):
    i = lines.index("# " + cid)
    j = i
    while lines[j] != "199":
        j += 1
    return "\n".join(lines[i:j + 1]) + "\n"


def grapheme_cut_engine(run, tier, seed):
    """C08, grapheme mode, on the implementation alone (no model: grapheme segmentation is not modelled): the
    same stream delivered in one read, cut at random cluster boundaries (and anywhere inside escape sequences),
    and cut at every such boundary must leave the same screen, cursor, modes and replies.  Supporting evidence."""
    import random
    import core
    rnd = random.Random(seed * 7919 + 13)
    units = GCUT_UNITS
    escs = ["\x1b[1m", "\x1b[0m", "\x1b[31;44m", "\r\n", "\r", "\n", "\x1b[2;3H", "\x1b[K", "\x1b[C", "\x1b[D", "\x1b[?7h", "\x1b[?7l",
            "\t", "\x1b[6n", "\x1b[2X", "\x1b[P", "\x1b[1;1H", "\x1b]2;té\x07", "\x1b[?1049h", "\x1b[?1049l", "\b"]
    n = 360 if tier == "thorough" else 60
    lines = []
    meta = {}
    kinds_of = {}
    for i in range(n):
        w, h = rnd.choice([2, 3, 5, 8, 13, 20, 40, 80]), rnd.choice([1, 2, 4, 8])
        # every third stream has narrow clusters only and also runs on the span buffer (with wide glyphs a write that
        # starts on a second half - sanctioned span behaviour, KF-second-half - depends on how the run is cut)
        narrow_only = i % 3 == 0
        pool = GCUT_NARROW if narrow_only else units
        kinds_of[i] = "01" if narrow_only else "1"
        items = [(rnd.choice(pool), False) if rnd.random() < 0.75 else (rnd.choice(escs), True) for _ in range(rnd.randint(2, 40))]
        stream = b"".join(t.encode("utf8") for t, _ in items)
        bounds, pos = set(), 0
        for t, is_esc in items:
            b = t.encode("utf8")
            if is_esc:
                bounds.update(range(pos + 1, pos + len(b)))
            pos += len(b)
            bounds.add(pos)
        bounds.discard(len(stream))
        bl = sorted(bounds)
        some = sorted(rnd.sample(bl, min(len(bl), rnd.randint(1, 6)))) if bl else []
        variants = {"whole": [], "some": some, "every": bl}
        for kind in kinds_of[i]:
            for vname, cuts in variants.items():
                cid = "gcut-%d-%d-k%s-%s" % (seed, i, kind, vname)
                lines.append("# " + cid)
                lines.append("100 1 %s %d %d" % (kind, w, h))
                lines.append("101")
                prev = 0
                for c in cuts + [len(stream)]:
                    if c > prev:
                        lines.append("110 " + " ".join(str(x) for x in stream[prev:c]))
                    prev = c
                lines.append("199")
                meta[cid] = (i, kind, vname, stream, cuts, w, h)
    txt = "\n".join(lines) + "\n"
    impl_txt, dead = core.run_impl(txt, core.BUILD)
    impl = core.parse_output(impl_txt)

    def final(cid):
        c = impl.get(cid)
        if not c or not c["ops"]:
            return None
        last = [r for r in c["ops"][-1] if r[0] in (2, 3, 5, 6)]
        replies = [x for op in c["ops"] for r in op if r[0] == 4 for x in r[1:]]
        crash = any(op[0][2] for op in c["ops"])
        return (last, replies, crash)
    cmp_n = 0
    for i in range(n):
        for kind in kinds_of[i]:
            ref = final("gcut-%d-%d-k%s-whole" % (seed, i, kind))
            for vname in ("some", "every"):
                cid = "gcut-%d-%d-k%s-%s" % (seed, i, kind, vname)
                got = final(cid)
                run.stats["cases"] += 1
                if ref is None or got is None:
                    continue
                cmp_n += 1
                run.stats["ops_compared"] += 1
                run.stats["ops_projected"] += 1
                if ref != got:
                    _, _, _, stream, cuts, w, h = meta[cid]
                    what = "grapheme mode, %s buffer, %dx%d: the stream read whole and read in %d pieces cut at cluster boundaries %s leave different %s" % (
                        "grid" if kind == "1" else "span", w, h, len(cuts) + 1, cuts[:12],
                        "replies" if ref[0] == got[0] else "screens")
                    run.violations.append({"kind": "segmentation", "what": what, "case": cid, "op": None,
                                           "case_text": _case_of(lines, cid),
                                           "expected": ref[0][:2], "actual": got[0][:2], "step": False})
                    if len(run.violations) > 20:
                        break
    run.stats["grapheme_cut_comparisons"] = cmp_n
    run.samples.append({"engine": "grapheme-cut", "streams": n, "comparisons": cmp_n})


def span_engine(run, tier, seed):
    """Function-level correspondence of the span splicing primitives (replaceRange, splitSpan, truncate, resize,
    deleteChars, rawWriteSpan, StyledLine, ...) with Model/Span.v: raw span structure compared line by line."""
    import lineengine

    def describe(case, impl, model):
        f = case.split()
        return ("span primitive case [%s]: model [%s] implementation [%s]" % (case[:160], model.split(" -1 ", 1)[-1][:160], impl.split(" -1 ", 1)[-1][:160]),
                (f[0] if f else "", f[1] if len(f) > 1 else ""))
    lineengine.run_engine("span", [str(seed), "250" if tier == "thorough" else "25"], describe, run, timeout=3000)


def uniseg_engine(run, tier, seed):
    """Function-level correspondence of the width and segmentation model (Model/Uniseg.v, Model/Grapheme.v; tables
    regenerated from the library source by tools/gen_uniseg) with the real code: uniseg.StringWidth of every code
    point (thorough; quick: every code point below U+3400 and of the emoji blocks, one block in sixteen of the rest), uniseg.Step iterated with carried state, and the reader's nextTokenInfo iterated with carried reader state
    over random strings of cluster pieces, stray and truncated bytes."""
    import lineengine

    def describe(case, impl, model):
        f = case.split()
        what = {"1": "width of the 256 code points from U+%04X" % int(f[1]) if len(f) > 1 else "widths",
                "2": "uniseg.Step over bytes [%s] (consumed width state property per cluster)" % " ".join(f[1:]),
                "3": "reader tokens (mode %s) over bytes [%s] (consumed width merge state property forceMergeNext lastWasRI per token)" % (
                    f[1] if len(f) > 1 else "?", " ".join(f[2:]))}.get(f[0] if f else "", case[:80])
        return ("%s: model [%s] implementation [%s]" % (what[:300], model.split(" -1 ", 1)[-1][:200], impl.split(" -1 ", 1)[-1][:200]),
                (f[0] if f else "", len(f)))
    lineengine.run_engine("uniseg", [str(seed)] + (["20000", "1"] if tier == "thorough" else ["3000", "16"]), describe, run, timeout=3000)


def spanterm_compare(run, txt):
    """Run implementation and span-terminal model on the cases of [txt] (headers already carry the raw-span flag) and
    compare.  A difference in a record the property speaks about (cells, headers, replies, registers, callbacks,
    regions) is a violation with the case as replay.  A difference only in how the row is STORED (record 11: span
    boundaries, fill runes, cached width) breaks the correspondence without showing a property failure: it is collected
    in run.corr_broken and reported as `no-failing-input-found` when nothing else fails."""
    import core
    names = dict(REC_NAMES_SPAN)
    impl_txt, dead = core.run_impl(txt, core.BUILD)
    impl = core.parse_output(impl_txt)
    model = core.parse_output(core.run_model_parallel(txt, nparts=16))
    for cid, why in dead:
        run.add_violation("implementation died", "%s: %s" % (cid, why), txt, cid, None)
    for cid, m in model.items():
        i = impl.get(cid)
        if i is None:
            continue
        run.stats["spanterm_cases"] += 1
        n_ops = min(len(i["ops"]), len(m["ops"]))
        raw_reported = False
        for k in range(n_ops):
            io, mo = i["ops"][k], m["ops"][k]
            run.stats["spanterm_ops"] += 1
            if io[0][2] != mo[0][2]:
                run.add_violation("crash", "span terminal model, op %d: model crash=%d implementation crash=%d" % (k, mo[0][2], io[0][2]), txt, cid, k)
                break
            if mo[0][2]:
                break
            bad = None
            i11 = [r for r in io if r[0] == 11]
            m11 = [r for r in mo if r[0] == 11]
            iother = [r for r in io if r[0] not in (1, 11)]
            mother = [r for r in mo if r[0] not in (1, 11)]
            if len(iother) != len(mother):
                bad = ("record count", [len(mother)], [len(iother)])
            else:
                for a, b in zip(iother, mother):
                    if a != b:
                        bad = ("record %d (%s)" % (a[0], names.get(a[0], "?")), b, a)
                        break
            if bad:
                run.add_violation("mismatch", "span terminal model, op %d: %s differs" % (k, bad[0]), txt, cid, k,
                                  expected=bad[1], actual=bad[2])
                break
            run.stats["spanterm_rows"] += len(m11)
            if i11 != m11 and not raw_reported:
                raw_reported = True
                d = next(((a, b) for a, b in zip(i11, m11) if a != b), (i11[-1:] or None, m11[-1:] or None))
                if not hasattr(run, "corr_broken"):
                    run.corr_broken = []
                run.corr_broken.append({"correspondence": "span-terminal model, raw span structure (Model/SpanScreen.v vs spanScreen rows)",
                                        "what": "op %d: the row is stored differently (record 11: spans as stored, cached width) while every cell, header, "
                                                "reply and callback agrees" % k, "case": cid, "op": k,
                                        "case_text": check_case_lines(txt, cid), "expected": d[1], "actual": d[0]})
        else:
            if len(i["ops"]) != len(m["ops"]) and not i.get("extra"):
                run.add_violation("mismatch", "span terminal model: number of operations observed differs", txt, cid, n_ops)


def check_case_lines(txt, cid):
    import core
    for i, t in core.split_cases(txt):
        if i == cid:
            return t
    return ""


def spanterm_engine(run, tier, seed, scale=1.0):
    """C20/C02: the whole-screen span model (rune mode: Model/SpanScreen.v, the model span_simulates_cells is about;
    grapheme mode: Model/GSpan.v, the same definitions over the cluster stepper, at the uniseg model) against
    the real read loop on the span buffer, per operation, in the RAW representation: every row's list of spans
    (style, text bytes, fill rune, width) and cached width, plus headers, cells (through the abstraction function),
    replies, registers, strings, callback digest and the announced regions in order.  Nothing is excused: the span
    model is a transcription of the code and carries no known-finding mark."""
    import re
    import json, os
    import core
    import witness as wit
    flag = lambda t: re.sub(r"^(100 \d+ \d+ \d+ \d+)( \d+)?$", lambda m: m.group(1) + " 0 1", t, flags=re.M)

    def corpus(name):
        cpath = os.path.join(core.VERIF, "corpus", "spanterm", name)
        if os.path.exists(cpath):
            return flag("".join(wit.case_text(w) for w in json.load(open(cpath))))
        return ""
    plan = [("mixed", 200, 1500), ("stepall", 150, 1000), ("c03", 100, 600), ("c05", 80, 500), ("c06", 80, 500), ("c18", 80, 500),
            ("c08", 80, 500), ("hostile", 80, 500), ("c17", 40, 300), ("c04", 40, 300), ("c07", 40, 300), ("c09", 40, 300),
            ("c14", 30, 200), ("c19", 20, 150)]
    # TextReadModeGrapheme: Model/GSpan.v at the grapheme stepper (the uniseg model), reader state compared as record 10;
    # nothing excused here either - the territory of KF-grapheme-merge (text that reached a row in pieces) is reproduced
    gplan = [("gclusters", 200, 1500), ("mixed", 120, 900), ("c03", 80, 500), ("c05g", 100, 600), ("c08", 80, 500),
             ("stepall", 60, 400), ("c18", 60, 400), ("c18g", 60, 400), ("hostile", 60, 400), ("c06", 40, 300)]
    # all batches of one mode go through the implementation and the model together (the model side runs on 16 workers)
    for mode, pl, sd, cname in (("0", plan, seed + 77, "cases.json"), ("1", gplan, seed + 177, "grapheme.json")):
        before = {k: run.stats[k] for k in ("spanterm_cases", "spanterm_ops", "spanterm_rows")}
        txt = corpus(cname)   # hand-written cases first
        for profile, q, th in pl:
            n = max(4, int((th if tier == "thorough" else q) * scale))
            txt += flag(core.gen_cases(profile, sd, n, "0", mode))
        spanterm_compare(run, txt)
        name = "rune" if mode == "0" else "grapheme"
        for k, v in before.items():
            run.stats[k + "_" + name] = run.stats[k] - v
    run.samples.append({"engine": "spanterm", "cases": run.stats["spanterm_cases"], "operations": run.stats["spanterm_ops"],
                        "rows_compared_raw": run.stats["spanterm_rows"],
                        "grapheme_mode": {k: run.stats[k + "_grapheme"] for k in ("spanterm_cases", "spanterm_ops", "spanterm_rows")}})


def spanterm_engine_light(run, tier, seed):
    """the span terminal engine at a third of its case counts (C02 has its other batches too; C20 runs it in full)"""
    spanterm_engine(run, tier, seed, scale=0.34)


REC_NAMES_SPAN = {2: "screen header", 3: "row cells via the abstraction function", 4: "reply bytes", 5: "registers", 6: "view strings",
                  7: "callback digest", 8: "announced regions, in order", 10: "reader state", 11: "raw spans of a row and cached width"}


PROPS = {
    "C01": {"tags": [2], "ppref": ("C01",), "batches": [
        B("hostile", 500, 3000, tags=[]), B("mixed", 300, 1800, tags=[]), B("hostile", 150, 900, modes="1", tags=[]),
        B("gclusters", 150, 900, modes="1", tags=[]),   # grapheme clusters and their pieces: crashes and accessors only
        B("c09", 300, 1800, tags=[]), B("c09cut", 100, 600, tags=[]),   # the syntax space of control strings (OSC/DCS bodies, odd terminators)
        B("c06", 150, 900, tags=[]), B("c18", 100, 600, tags=[])]},     # scroll/insert/delete with large counts inside regions; resizes
    "C02": {"tags": SCREEN, "ppref": ("C02",), "batches": [
        B("mixed", 150, 900, modes="1"),
        B("mixed", 500, 3000), B("hostile", 300, 1800, tags=[2]), B("stepall", 200, 1200, step=True),
        B("c18", 200, 1200),
        B("gclusters", 200, 1200, modes="1", tags=SCREEN + [10])],   # grapheme mode: clusters, marks, joiners, selectors, flags and their pieces, cut anywhere
        "extra": [span_engine, spanterm_engine_light]},
    "C03": {"tags": SCREEN, "ppref": ("C03", "C02"), "batches": [
        B("c03", 150, 900, step=True, kinds_wanted=[1], modes="1", tags=SCREEN + [10]),
        B("gclusters", 150, 900, modes="1", tags=SCREEN + [10]),
        B("c03", 400, 2400, step=True, kinds_wanted=[1]),
        B("c08", 150, 900)],   # the same writes with reads cut anywhere, also inside characters
        "extra": [uniseg_engine]},
    "C04": {"tags": [2, 3, 7], "ppref": ("C04",), "batches": [
        B("c04", 800, 4800, step=True, kinds_wanted=[2, 3]),
        B("c18", 150, 900, step=True, kinds_wanted=[3])]},   # save far away / Resize / restore: the saved position must come back inside the screen
    "C05": {"tags": SCREEN, "ppref": ("C05",), "batches": [
        B("c05", 800, 4800, step=True, kinds_wanted=[4]),
        # grapheme mode: erases over cells that hold clusters and late merges (marks merged into blanks and characters)
        B("c05g", 200, 1200, step=True, kinds_wanted=[4], modes="1", tags=SCREEN + [10])]},
    "C06": {"tags": SCREEN, "ppref": ("C06",), "batches": [
        B("c06", 800, 4800, step=True, kinds_wanted=[5, 14, 2])]},
    "C07": {"tags": [2, 3, 7], "ppref": ("C07",), "batches": [
        B("c07", 800, 4800, step=True, kinds_wanted=[6, 1, 4, 5])]},
    "C08": {"tags": ALL, "ppref": ("C08",), "batches": [B("c08", 400, 2400), B("c08", 150, 900, modes="1", tags=ALL + [10]), B("gclusters", 150, 900, modes="1", tags=ALL + [10]), B("c08long", 40, 240, modes="01")], "extra": [grapheme_cut_engine, uniseg_engine]},
    "C09": {"tags": ALL, "ppref": ("C09",), "batches": [
        B("c09", 800, 4800, step=True, kinds_wanted=[10, 13]),
        B("c09cut", 150, 900)]},   # the same sequences with reads cut anywhere, also right after ESC
    "C10": {"tags": [7, 8], "ppref": ("C10",), "batches": [B("stepall", 800, 4800, step=True), B("mixed", 400, 2400),
                                                           B("gclusters", 150, 900, modes="1")]},   # merges into the previous cell
    "C11": {"tags": [], "ppref": ("C11",), "batches": [B("mixed", 800, 4800, tags=[]), B("c07", 600, 3600, tags=[]),
                                                       B("gclusters", 150, 900, modes="1", tags=[]), B("mixed", 150, 900, modes="1", tags=[])],
            "extra": [tty_engine]},
    "C12": {"tags": [], "ppref": ("C12",), "batches": [], "extra": [keys_engine]},
    "C13": {"tags": [], "ppref": ("C13",), "batches": [], "extra": [mouse_engine]},
    "C14": {"tags": [4], "ppref": ("C14",), "batches": [B("c14", 800, 4800), B("mixed", 400, 2400)]},
    "C15": {"tags": [], "ppref": ("C15",), "batches": [B("mixed", 150, 900, tags=[])], "extra": [conc_engine]},
    "C16": {"tags": [], "ppref": ("C16",), "batches": [], "extra": [io_engine]},
    "C17": {"tags": ALL, "ppref": ("C17",), "batches": [
        B("c17", 800, 4800, step=True, kinds_wanted=[7, 15, 9])]},
    "C18": {"tags": SCREEN + [7], "ppref": ("C18",), "batches": [
        B("c18", 400, 2400, step=True, kinds_wanted=[11]), B("c18", 150, 900),
        # grapheme mode: the new right edge falls at, next to or through clusters of several code points
        B("c18g", 200, 1200, step=True, kinds_wanted=[11], modes="1", tags=SCREEN + [7, 10])]},
    "C19": {"tags": [4, 5], "ppref": ("C19",), "batches": [B("c19", 800, 4800)]},
    "C20": {"tags": SCREEN, "ppref": ("C20",), "batches": [B("mixed", 800, 4800), B("stepall", 400, 2400, step=True),
                                                            B("gclusters", 150, 900, modes="1")],
            "extra": [spanterm_engine]},
}
