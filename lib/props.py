"""Per-property configuration of the correspondence check: generator batches,
projection (record tags compared), operation kinds attributed to the property,
and which direct-predicate lines (prefix) belong to it."""

KIND_NAMES = {0: "unlabelled", 1: "text", 2: "c0-motion", 3: "csi-motion", 4: "erase", 5: "scroll", 6: "sgr", 7: "mode", 8: "query",
              9: "kbd", 10: "string/ignored", 11: "resize", 12: "hostile-bytes", 13: "other-c0", 14: "margins", 15: "alt-screen"}

ALL = [2, 3, 4, 5, 6, 7]          # everything but announced regions
SCREEN = [2, 3]

def B(profile, quick, thorough, **kw):
    d = {"profile": profile, "quick": quick, "thorough": thorough}
    d.update(kw)
    return d

PROPS = {
    "C01": {"tags": [2], "ppref": ("C01",), "batches": [
        B("hostile", 500, 20000, tags=[]), B("mixed", 300, 8000, tags=[]), B("hostile", 150, 4000, modes="1", tags=[])]},
    "C02": {"tags": SCREEN, "ppref": ("C02",), "batches": [
        B("mixed", 500, 12000), B("hostile", 300, 8000, tags=[2]), B("stepall", 200, 4000, step=True)]},
    "C03": {"tags": SCREEN, "ppref": ("C03",), "batches": [
        B("c03", 600, 15000, step=True, kinds_wanted=[1])]},
    "C04": {"tags": [2, 3, 7], "ppref": ("C04",), "batches": [
        B("c04", 600, 15000, step=True, kinds_wanted=[2, 3])]},
    "C05": {"tags": SCREEN, "ppref": ("C05",), "batches": [
        B("c05", 600, 15000, step=True, kinds_wanted=[4])]},
    "C06": {"tags": SCREEN, "ppref": ("C06",), "batches": [
        B("c06", 600, 15000, step=True, kinds_wanted=[5, 14, 2])]},
    "C07": {"tags": [2, 3, 7], "ppref": ("C07",), "batches": [
        B("c07", 600, 15000, step=True, kinds_wanted=[6, 1, 4, 5])]},
    "C08": {"tags": ALL, "ppref": ("C08",), "batches": [B("c08", 400, 10000)]},
    "C09": {"tags": ALL, "ppref": ("C09",), "batches": [
        B("c09", 600, 15000, step=True, kinds_wanted=[10, 13])]},
    "C10": {"tags": [7, 8], "ppref": ("C10",), "batches": [B("stepall", 400, 10000, step=True), B("mixed", 200, 5000)]},
    "C14": {"tags": [4], "ppref": ("C14",), "batches": [B("c14", 600, 15000), B("mixed", 200, 5000)]},
    "C17": {"tags": ALL, "ppref": ("C17",), "batches": [
        B("c17", 600, 15000, step=True, kinds_wanted=[7, 15])]},
    "C18": {"tags": SCREEN + [7], "ppref": ("C18",), "batches": [
        B("c18", 600, 15000, step=True, kinds_wanted=[11]), B("c18", 150, 4000)]},
    "C19": {"tags": [4, 5], "ppref": ("C19",), "batches": [B("c19", 400, 10000)]},
    "C20": {"tags": SCREEN, "ppref": ("C20",), "batches": [B("mixed", 400, 10000), B("stepall", 200, 6000, step=True)]},
}
