#!/usr/bin/env python3
"""Regenerates MANIFEST.json from the set of Properties/*.v files present."""
import json, os, subprocess
V = os.path.dirname(os.path.dirname(os.path.abspath(__file__)))
props = [json.loads(l) for l in open(os.path.join(V, "properties.jsonl"))]
notes = json.load(open(os.path.join(V, "lib", "levels.json")))
commits = subprocess.run("git -C /repo log --format=%H --grep='^verif:' ", shell=True, capture_output=True, text=True).stdout.split()
checks, na = [], []
for p in props:
    pid = p["id"]
    n = notes.get(pid, {})
    if os.path.exists(os.path.join(V, "coq", "Properties", pid + ".v")) and not n.get("not_applicable"):
        checks.append({
            "property_id": pid,
            "quick_cmd": "bin/check %s quick" % pid,
            "thorough_cmd": "bin/check %s thorough" % pid,
            "evidence_file": "/verif/evidence/%s.json" % pid,
            "replay_cmd_template": "bin/check %s --replay {path}" % pid,
            "engine": "coq-model",
            "level_claimed": {"category": "proof", "text": n.get("text", ""), "design_ref": n.get("design_ref", "DESIGN.md section 7")},
            "level_note": n.get("note", ""),
            "technique": n.get("technique", "Coq theorems over an executable Gallina model + model/implementation correspondence check"),
        })
    else:
        na.append({"property_id": pid, "reason": n.get("reason", "not yet claimed: theorems for this property are not built yet in this round; see DESIGN.md")})
m = {
    "version": 1,
    "setup_cmd": "bin/setup",
    "hooks": {"guard": "verif", "enable": "go build -tags verif (file /repo/verif_hooks.go, //go:build verif)",
              "baseline_off_cmd": "cd /repo && go test -vet=off -count=1 ./...", "source_commits": commits, "add_only": True},
    "engines": [{"name": "coq-model", "path": "/verif/coq", "serves_properties": [c["property_id"] for c in checks],
                 "kind_free_text": "Coq 8.16.1 development: executable Gallina model of the emulator (Model/), specifications (Spec/), proofs (Proofs/), property theorems (Properties/), extracted to OCaml and compared with the Go implementation by /verif/harness"}],
    "checks": checks,
    "not_applicable": na,
    "notes": "bin/check <id> quick|thorough: rebuild proofs (translator output regenerated), rebuild harness from /repo with -tags verif, corpus + generated histories through implementation and extracted model, compare the property's projection, direct predicates, evidence.",
}
json.dump(m, open(os.path.join(V, "MANIFEST.json"), "w"), indent=1)
print("claimed:", [c["property_id"] for c in checks])
