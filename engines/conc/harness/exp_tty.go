package main

import (
	"fmt"
	"io"
	"math/rand"
	"strings"
	"sync"
	"sync/atomic"
	"time"

	"github.com/ricochet1k/termemu"
)

const (
	ttyAttach = iota
	ttyDetach
	ttyFocus
	ttyBlur
	ttySetFocus
	ttyKinds
)

var ttyNames = [ttyKinds]string{"Attach", "Detach", "Focus", "Blur", "SetFocus"}

// expTTYAttach: a TTYFrontend renders output from the read loop (callbacks
// under the terminal lock take TTYFrontend.mu) while other goroutines call
// Attach (which takes TTYFrontend.mu and then the terminal lock).
func expTTYAttach(cfg *config) {
	qb := newQueueBackend(32)
	term := termemu.New(nil, qb)
	fe := termemu.NewTTYFrontend(nil, io.Discard)
	fe.SetTerminal(term)
	term.SetFrontend(fe)

	wd := &watchdog{}
	stop := make(chan struct{})
	var wg sync.WaitGroup
	var opCounts [ttyKinds]atomic.Int64
	var fedBytes atomic.Int64

	loopCtr := wd.add("read-loop")
	wg.Add(1)
	go func() {
		defer wg.Done()
		t := time.NewTicker(20 * time.Millisecond)
		defer t.Stop()
		for {
			select {
			case <-stop:
				loopCtr.Store(-1)
				return
			case <-t.C:
				loopCtr.Store(qb.reads.Load())
			}
		}
	}()

	prodCtr := wd.add("producer")
	wg.Add(1)
	go func() {
		defer wg.Done()
		defer prodCtr.Store(-1)
		rng := rand.New(rand.NewSource(cfg.seed + 300))
		for {
			for _, c := range randomChunks(rng, mixedScript(rng, 40), 64) {
				select {
				case <-stop:
					return
				default:
				}
				if !qb.Feed(c) {
					return
				}
				fedBytes.Add(int64(len(c)))
				prodCtr.Add(1)
			}
		}
	}()

	for i := 0; i < cfg.workers; i++ {
		ctr := wd.add(fmt.Sprintf("worker%d", i))
		wg.Add(1)
		go func(i int) {
			defer wg.Done()
			defer ctr.Store(-1)
			rng := rand.New(rand.NewSource(cfg.seed + 400 + int64(i)))
			for {
				select {
				case <-stop:
					return
				default:
				}
				op := rng.Intn(ttyKinds)
				if rng.Intn(2) == 0 {
					op = ttyAttach
				}
				guard("tty-attach/"+ttyNames[op], func() {
					switch op {
					case ttyAttach:
						x, y := rng.Intn(40), rng.Intn(7)
						fe.Attach(termemu.Region{X: x, Y: y, X2: x + 1 + rng.Intn(80), Y2: y + 1 + rng.Intn(14)})
					case ttyDetach:
						fe.Detach()
					case ttyFocus:
						fe.Focus()
					case ttyBlur:
						fe.Blur()
					case ttySetFocus:
						fe.SetFocus(rng.Intn(2) == 0)
					}
				})
				opCounts[op].Add(1)
				ctr.Add(1)
			}
		}(i)
	}

	kind := "deadlock-suspected(tty-attach)"
	tag := "D29 on unpatched tree"
	wdDone := make(chan struct{})
	go func() {
		defer close(wdDone)
		wd.run(cfg.stall, stop, func(stalled []string, since time.Duration) {
			dieDeadlocked(kind, cfg.expectD29, tag, stalled, since)
		})
	}()

	time.Sleep(cfg.dur)
	close(stop)
	qb.Close()
	joined := make(chan struct{})
	go func() { wg.Wait(); close(joined) }()
	select {
	case <-joined:
	case <-time.After(cfg.stall + 2*time.Second):
		dieDeadlocked(kind, cfg.expectD29, tag, []string{"shutdown: workers did not return"}, cfg.dur)
	}
	<-wdDone

	var ops []string
	var total int64
	for k := 0; k < ttyKinds; k++ {
		n := opCounts[k].Load()
		total += n
		ops = append(ops, fmt.Sprintf("%s=%d", ttyNames[k], n))
	}
	fmt.Printf("OK tty-attach completed dur=%v workers=%d ops=%d fed-bytes=%d backend-reads=%d\n", cfg.dur, cfg.workers, total, fedBytes.Load(), qb.reads.Load())
	fmt.Printf("NOTE tty-attach ops %s\n", strings.Join(ops, " "))
	if cfg.expectD29 {
		fmt.Println("NOTE tty-attach expected finding D29 was NOT observed in this run")
	}
}
