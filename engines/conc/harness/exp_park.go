package main

import (
	"fmt"
	"sort"
	"strings"
	"sync"
	"time"

	"github.com/ricochet1k/termemu"
)

type parkResult struct {
	script   string
	mode     string
	cut      int
	state    escState
	held     bool // the WithLock probe did not get the lock within the deadline
	tryHeld  bool // a TryLock made just before the probe failed
	harnessE string
}

// probeCut runs one terminal: deliver script[:cut], wait until the read loop
// asks for more input (it is now parked inside Backend.Read), then probe the
// terminal lock from another goroutine.
func probeCut(script []byte, cut int, mode termemu.TextReadMode, deadline time.Duration) (res parkResult) {
	res.cut = cut
	res.state = classify(script[:cut])
	const slack = 10 * time.Second

	be := newParkBackend()
	term := termemu.NewWithMode(nil, be, mode)
	tl := term.(tryLocker)
	if !be.waitRead(slack) {
		res.harnessE = "read loop never called Read"
		return
	}
	be.feed <- script[:cut]
	if !be.waitRead(slack) {
		res.harnessE = "read loop did not come back for more input after the prefix"
		return
	}

	// The loop is parked in Read. Nobody else uses this terminal.
	if tl.TryLock() {
		tl.Unlock()
	} else {
		res.tryHeld = true
	}
	done := make(chan struct{})
	go func() {
		defer close(done)
		term.WithLock(func() { _, _ = term.Size() })
	}()
	select {
	case <-done:
	case <-time.After(deadline):
		res.held = true
	}

	// Release the parked Read whatever happened, so that the loop finishes the
	// sequence and drops the lock; then end the stream and join the probe.
	if cut < len(script) {
		be.feed <- script[cut:]
		if !be.waitRead(slack) {
			res.harnessE = "read loop did not consume the rest of the script"
		}
	}
	close(be.feed)
	select {
	case <-done:
	case <-time.After(slack):
		res.harnessE = "probe never acquired the lock even after end of input"
	}
	return
}

func expParkProbe(cfg *config) {
	type job struct {
		si   int
		mode termemu.TextReadMode
		cut  int
	}
	modes := []struct {
		m    termemu.TextReadMode
		name string
	}{{termemu.TextReadModeRune, "rune"}, {termemu.TextReadModeGrapheme, "grapheme"}}

	var jobs []job
	for si, s := range parkScripts {
		if st := classify([]byte(s.data)); st != stGround {
			addFinding("harness-error(park-probe)", 1, false, "", fmt.Sprintf("script %s does not end in ground state (%v)", s.name, st))
			continue
		}
		for _, m := range modes {
			for cut := 1; cut <= len(s.data); cut++ {
				jobs = append(jobs, job{si, m.m, cut})
			}
		}
	}

	// Construct one terminal before the parallel workers start: the library
	// initialises package-level debug state lazily and without synchronisation
	// (see experiment concurrent-new); park-probe is not about that.
	warm := newQueueBackend(0)
	_ = termemu.New(nil, warm)
	warm.Close()

	results := make([]parkResult, len(jobs))
	var wg sync.WaitGroup
	ch := make(chan int)
	for w := 0; w < cfg.par; w++ {
		wg.Add(1)
		go func() {
			defer wg.Done()
			for i := range ch {
				j := jobs[i]
				r := probeCut([]byte(parkScripts[j.si].data), j.cut, j.mode, cfg.deadline)
				r.script = parkScripts[j.si].name
				r.mode = modes[0].name
				if j.mode == termemu.TextReadModeGrapheme {
					r.mode = modes[1].name
				}
				results[i] = r
			}
		}()
	}
	for i := range jobs {
		ch <- i
	}
	close(ch)
	wg.Wait()

	var inside, outside, heldInside, heldOutside, tryInside, tryOutside, disagree int
	byState := map[string]int{}
	var outsideDetail, insideDetail []string
	for _, r := range results {
		if r.harnessE != "" {
			addFinding("harness-error(park-probe)", 1, false, "", fmt.Sprintf("%s/%s cut=%d: %s", r.script, r.mode, r.cut, r.harnessE))
			continue
		}
		in := r.state != stGround
		if in {
			inside++
		} else {
			outside++
		}
		if r.tryHeld != r.held {
			disagree++
		}
		if r.tryHeld {
			if in {
				tryInside++
			} else {
				tryOutside++
			}
		}
		if !r.held {
			continue
		}
		d := fmt.Sprintf("%s/%s cut=%d", r.script, r.mode, r.cut)
		if in {
			heldInside++
			byState[r.state.String()]++
			if len(insideDetail) < 3 {
				insideDetail = append(insideDetail, d+" "+r.state.String())
			}
		} else {
			heldOutside++
			outsideDetail = append(outsideDetail, d)
		}
		if cfg.verbose {
			fmt.Printf("NOTE park-probe held %s state=%s trylock-failed=%v\n", d, r.state, r.tryHeld)
		}
	}
	if heldInside > 0 {
		addFinding("lock-held-while-waiting/inside-escape", int64(heldInside), cfg.expectD38, "D38", "e.g. "+strings.Join(insideDetail, "; "))
	}
	if heldOutside > 0 {
		addFinding("lock-held-while-waiting/outside-escape", int64(heldOutside), false, "", strings.Join(outsideDetail, "; "))
	}
	var st []string
	for k, v := range byState {
		st = append(st, fmt.Sprintf("%s=%d", k, v))
	}
	sort.Strings(st)
	word := "OK"
	if heldOutside > 0 {
		word = "BAD"
	}
	fmt.Printf("%s park-probe boundaries=%d inside-escape=%d held-inside=%d outside-escape=%d held-outside=%d trylock-failed-inside=%d trylock-failed-outside=%d probe/trylock-disagreements=%d deadline=%v scripts=%d modes=2\n",
		word, inside+outside, inside, heldInside, outside, heldOutside, tryInside, tryOutside, disagree, cfg.deadline, len(parkScripts))
	if len(st) > 0 {
		fmt.Printf("NOTE park-probe held-inside by parser state: %s\n", strings.Join(st, " "))
	}
	if cfg.expectD38 && heldInside == 0 {
		fmt.Printf("NOTE park-probe expected finding D38 was NOT observed (lock free at all %d inside-escape boundaries)\n", inside)
	}
}
