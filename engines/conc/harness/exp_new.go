package main

import (
	"fmt"
	"sync"

	"github.com/ricochet1k/termemu"
)

// expConcurrentNew constructs terminals from several goroutines at once.
// Independent terminals share no state that the caller can see, so this
// should be safe; the experiment has no check of its own and only gives the
// race detector something to look at (package-level state in the library).
// It runs in its own process so that the library's lazy package
// initialisation has not happened yet.
func expConcurrentNew(cfg *config) {
	const n = 8
	var wg sync.WaitGroup
	start := make(chan struct{})
	made := make([]bool, n)
	for i := 0; i < n; i++ {
		wg.Add(1)
		go func(i int) {
			defer wg.Done()
			<-start
			guard("concurrent-new", func() {
				be := newQueueBackend(0)
				term := termemu.NewWithMode(&termemu.EmptyFrontend{}, be, termemu.TextReadModeRune)
				be.Feed([]byte("hello \x1b[31mworld\x1b[0m\r\n"))
				be.WaitIdle(cfg.stall)
				term.WithLock(func() { _ = term.Line(0) })
				be.Close()
				made[i] = true
			})
		}(i)
	}
	close(start)
	wg.Wait()
	ok := 0
	for _, m := range made {
		if m {
			ok++
		}
	}
	fmt.Printf("OK concurrent-new terminals=%d/%d race-detector=%v (no check of its own; only the race detector can report something here)\n", ok, n, raceEnabled)
}
