package main

import (
	"bytes"
	"fmt"
	"io"
	"strings"
	"sync"
	"time"

	"github.com/ricochet1k/termemu"
)

// expLockPaths: two deterministic situations around the terminal lock.
//
//  1. A locked section that panics (a reader using a stale row index under WithLock after a concurrent Resize is the
//     realistic case) and whose caller recovers must leave the lock free: otherwise the read loop and every API call
//     deadlock from then on.
//  2. TTYFrontend.Attach picks the frontend's terminal, then waits for that terminal's lock.  If SetTerminal switches
//     the frontend to another terminal in between, Attach holds the lock of the first terminal only and must not read
//     the second terminal's screen (whose read loop may be half-way through an update, holding its own lock).
func expLockPaths(cfg *config) {
	// ---- 1: panic under WithLock
	{
		pr, pw := io.Pipe()
		term := termemu.New(&termemu.EmptyFrontend{}, termemu.NewNoPTYBackend(pr, io.Discard))
		func() {
			defer func() { _ = recover() }()
			term.WithLock(func() { panic("reader used a stale index") })
		}()
		got := make(chan struct{})
		go func() { term.WithLock(func() {}); close(got) }()
		select {
		case <-got:
			fmt.Println("OK lock-paths/panic-under-lock lock free after a recovered panic in a locked section")
		case <-time.After(cfg.deadline + time.Second):
			addFinding("deadlock(lock-leaked-after-panic)", 1, false, "", "WithLock did not release the terminal lock when the locked function panicked: a later WithLock never returns")
		}
		_ = pw.Close()
	}
	// ---- 2: Attach racing SetTerminal
	{
		pr2, pw2 := io.Pipe()
		bf := &blockingFrontend{entered: make(chan struct{}), release: make(chan struct{})}
		term2 := termemu.New(bf, termemu.NewNoPTYBackend(pr2, io.Discard))
		go func() { _, _ = pw2.Write([]byte("one\r\ntwo\r\nthree")) }()
		deadline := time.Now().Add(3 * time.Second)
		ready := false
		for time.Now().Before(deadline) {
			var l2 string
			term2.WithLock(func() { l2 = term2.Line(2) })
			if strings.HasPrefix(l2, "three") {
				ready = true
				break
			}
			time.Sleep(time.Millisecond)
		}
		if !ready {
			addFinding("harness-error(lock-paths)", 1, false, "", "terminal 2 did not take its input")
			return
		}
		bf.mu.Lock()
		bf.armed = true
		bf.mu.Unlock()
		go func() { _, _ = pw2.Write([]byte("\x1b[2J")) }()
		select {
		case <-bf.entered:
		case <-time.After(3 * time.Second):
			addFinding("harness-error(lock-paths)", 1, false, "", "terminal 2's read loop did not reach the erase callback")
			return
		}
		pr1, _ := io.Pipe()
		term1 := termemu.New(&termemu.EmptyFrontend{}, termemu.NewNoPTYBackend(pr1, io.Discard))
		spy := &lockSpy{Terminal: term1, entered: make(chan struct{})}
		var out bytes.Buffer
		fe := termemu.NewTTYFrontend(spy, &out)
		term1.Lock()
		done := make(chan struct{})
		go func() { fe.Attach(termemu.Region{X: 0, Y: 0, X2: 80, Y2: 5}); close(done) }()
		select {
		case <-spy.entered:
		case <-time.After(3 * time.Second):
			term1.Unlock()
			close(bf.release)
			addFinding("harness-error(lock-paths)", 1, false, "", "Attach did not try to lock terminal 1")
			return
		}
		fe.SetTerminal(term2)
		term1.Unlock()
		select {
		case <-done:
		case <-time.After(3 * time.Second):
			addFinding("deadlock(attach-after-set-terminal)", 1, false, "", "Attach did not return")
		}
		got := out.String()
		if strings.Contains(got, "two") || strings.Contains(got, "three") {
			addFinding("unlocked-read(attach-after-set-terminal)", 1, false, "",
				"Attach read terminal 2's screen while holding only terminal 1's lock, with terminal 2's read loop half-way through an erase (torn frame painted)")
		} else {
			fmt.Println("OK lock-paths/attach-set-terminal Attach did not read the terminal it does not hold the lock of")
		}
		close(bf.release)
	}
}

type lockSpy struct {
	termemu.Terminal
	once    sync.Once
	entered chan struct{}
}

func (s *lockSpy) WithLock(f func()) {
	s.once.Do(func() { close(s.entered) })
	s.Terminal.WithLock(f)
}

// blockingFrontend parks the read loop inside a RegionChanged(CRClear) callback, i.e. with the terminal lock held and
// the update it is applying only half done.
type blockingFrontend struct {
	termemu.EmptyFrontend
	mu      sync.Mutex
	armed   bool
	entered chan struct{}
	release chan struct{}
}

func (f *blockingFrontend) RegionChanged(r termemu.Region, c termemu.ChangeReason) {
	f.mu.Lock()
	hit := f.armed && c == termemu.CRClear
	if hit {
		f.armed = false
	}
	f.mu.Unlock()
	if hit {
		close(f.entered)
		<-f.release
	}
}
