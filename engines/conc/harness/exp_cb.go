package main

import (
	"fmt"
	"math/rand"
	"strings"
	"sync"
	"time"

	"github.com/ricochet1k/termemu"
)

// expCbLocked: every Frontend callback must be made with the terminal lock
// held. Phase A is sequential (only one goroutine touches the terminal at any
// time, so a successful TryLock inside a callback proves the caller does not
// hold the lock, and a failing one proves it does). Phase B adds concurrent
// Resize/SetFrontend callers; there a failing TryLock only proves that
// somebody holds the lock.
func expCbLocked(cfg *config) {
	stats := &cbStats{}
	feA := &recFrontend{name: "A", stats: stats}
	feB := &recFrontend{name: "B", stats: stats}
	be := newQueueBackend(0)
	term := termemu.NewWithMode(feA, be, termemu.TextReadModeGrapheme)
	if term == nil {
		addFinding("harness-error(cb-locked)", 1, false, "", "termemu.NewWithMode returned nil")
		return
	}
	stats.setTerm(term)
	rng := rand.New(rand.NewSource(cfg.seed))

	softMismatch := 0
	feedAndWait := func(script []byte) bool {
		for _, c := range randomChunks(rng, script, 17) {
			be.Feed(c)
		}
		if !be.WaitIdle(10 * time.Second) {
			addFinding("harness-error(cb-locked)", 1, false, "", "read loop did not drain the script within 10s")
			return false
		}
		// Nobody else touches the terminal now: the same check the stress
		// readers use must hold here, otherwise it is not a concurrency check.
		var hard, soft string
		guard("cb-locked/read", func() { term.WithLock(func() { hard, soft = checkScreen(term) }) })
		if hard != "" {
			addFinding("inconsistent-screen(sequential)", 1, false, "", hard)
		}
		if soft != "" {
			softMismatch++
			if cfg.verbose {
				fmt.Printf("NOTE cb-locked %s after script %q\n", soft, script)
			}
		}
		return true
	}

	// Phase A: sequential.
	ok := feedAndWait(coverageScript())
	for i := 0; ok && i < cfg.iters; i++ {
		guard("cb-locked", func() {
			switch i % 4 {
			case 0:
				_ = term.Resize(1+rng.Intn(120), 1+rng.Intn(50))
			case 1:
				term.SetFrontend(feB)
			case 2:
				_ = term.Resize(80, 24)
			case 3:
				term.SetFrontend(feA)
			}
		})
		ok = feedAndWait(mixedScript(rng, 30))
	}
	seqCallbacks := stats.total()
	seqViolations := stats.totalViolations()

	// Phase B: concurrent Resize and SetFrontend while the loop is fed.
	if ok {
		var wg sync.WaitGroup
		stop := make(chan struct{})
		wg.Add(2)
		go func() {
			defer wg.Done()
			r := rand.New(rand.NewSource(cfg.seed + 1))
			for {
				select {
				case <-stop:
					return
				default:
				}
				guard("cb-locked", func() { _ = term.Resize(1+r.Intn(120), 1+r.Intn(50)) })
			}
		}()
		go func() {
			defer wg.Done()
			fes := []termemu.Frontend{feA, feB}
			for i := 0; ; i++ {
				select {
				case <-stop:
					return
				default:
				}
				term.SetFrontend(fes[i%2])
			}
		}()
		for i := 0; i < cfg.iters && ok; i++ {
			ok = feedAndWait(mixedScript(rng, 30))
		}
		close(stop)
		wg.Wait()
	}
	be.Close()

	total := stats.total()
	viol := stats.totalViolations()
	var per, never []string
	for k := 0; k < cbKinds; k++ {
		n := stats.counts[k].Load()
		per = append(per, fmt.Sprintf("%s=%d", cbNames[k], n))
		if n == 0 {
			never = append(never, cbNames[k])
		}
		if v := stats.violations[k].Load(); v > 0 {
			addFinding("callback-without-lock/"+cbNames[k], v, false, "", "TryLock succeeded inside the callback")
		}
	}
	fmt.Printf(okWord(viol == 0)+" cb-locked callbacks=%d violations=%d sequential-callbacks=%d sequential-violations=%d pre-construction-unchecked=%d reads-in-callbacks=%d frontendA=%d frontendB=%d\n",
		total, viol, seqCallbacks, seqViolations, stats.unchecked.Load(), stats.reads.Load(), feA.seen.Load(), feB.seen.Load())
	fmt.Printf("NOTE cb-locked per-kind %s\n", strings.Join(per, " "))
	if softMismatch > 0 {
		fmt.Printf("NOTE cb-locked row-width-mismatch after %d of the drained scripts (span widths of a row do not add up to the screen width; functional, not a locking finding)\n", softMismatch)
	}
	if len(never) > 0 {
		fmt.Printf("NOTE cb-locked callback kinds never invoked by the library during this run: %s\n", strings.Join(never, ","))
	}
}
