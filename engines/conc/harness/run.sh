#!/bin/sh
# Usage: ./run.sh [REPO_DIR] [harness flags...]
# Builds the harness against the termemu checkout at REPO_DIR (default /repo)
# without editing go.mod in place, with the race detector when available, and
# runs it. Extra arguments are passed to the harness (see README.md).
set -eu

REPO_DIR=/repo
if [ $# -gt 0 ]; then
	case "$1" in
	-*) ;;
	*) REPO_DIR=$1; shift ;;
	esac
fi

export GOFLAGS=-mod=mod GOPROXY=off GOSUMDB=off GOTOOLCHAIN=local

HERE=$(cd "$(dirname "$0")" && pwd)
REPO_DIR=$(cd "$REPO_DIR" && pwd)
if [ ! -f "$REPO_DIR/terminal.go" ]; then
	echo "run.sh: $REPO_DIR does not look like a termemu checkout" >&2
	exit 2
fi

WORK=$(mktemp -d "${TMPDIR:-/tmp}/harness-conc.XXXXXX")
cp "$HERE/go.mod" "$WORK/build.mod"
cp "$HERE/go.sum" "$WORK/build.sum"
cd "$HERE"
go mod edit -replace=github.com/ricochet1k/termemu="$REPO_DIR" "$WORK/build.mod"

echo "NOTE run.sh library=$REPO_DIR $(cd "$REPO_DIR" && git rev-parse --short HEAD 2>/dev/null || echo '(no git)')$(cd "$REPO_DIR" && git diff --quiet 2>/dev/null || echo ' +local-changes') go=$(go env GOVERSION) work=$WORK"

BIN="$WORK/harness-conc"
if CGO_ENABLED=1 go build -race -modfile="$WORK/build.mod" -o "$BIN" . 2>"$WORK/race-build.log"; then
	exec "$BIN" -outdir "$WORK/logs" "$@"
fi
REASON=$(tr '\n' ' ' <"$WORK/race-build.log" | cut -c1-300)
echo "NOTE run.sh: 'CGO_ENABLED=1 go build -race' failed, building without the race detector" >&2
go build -modfile="$WORK/build.mod" -o "$BIN" .
exec "$BIN" -outdir "$WORK/logs" -norace-reason "go build -race failed: $REASON" "$@"
