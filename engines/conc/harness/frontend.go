package main

import (
	"sync/atomic"

	"github.com/ricochet1k/termemu"
)

type tryLocker interface {
	TryLock() bool
	Unlock()
}

const (
	cbBell = iota
	cbRegionChanged
	cbScrollLines
	cbCursorMoved
	cbStyleChanged
	cbViewFlagChanged
	cbViewIntChanged
	cbViewStringChanged
	cbKinds
)

var cbNames = [cbKinds]string{"Bell", "RegionChanged", "ScrollLines", "CursorMoved", "StyleChanged", "ViewFlagChanged", "ViewIntChanged", "ViewStringChanged"}

// cbStats is shared by all recording frontends of one experiment.
type cbStats struct {
	term       atomic.Pointer[termRef]
	counts     [cbKinds]atomic.Int64
	violations [cbKinds]atomic.Int64
	unchecked  atomic.Int64 // callbacks made before the terminal value existed (from termemu.New itself)
	reads      atomic.Int64 // read accessors called from inside callbacks
}

type termRef struct {
	t  termemu.Terminal
	tl tryLocker
}

func (s *cbStats) setTerm(t termemu.Terminal) {
	s.term.Store(&termRef{t: t, tl: t.(tryLocker)})
}

func (s *cbStats) total() (n int64) {
	for i := range s.counts {
		n += s.counts[i].Load()
	}
	return
}

func (s *cbStats) totalViolations() (n int64) {
	for i := range s.violations {
		n += s.violations[i].Load()
	}
	return
}

// check is called from every callback: the terminal lock must be held by the
// caller, so TryLock must fail.
func (s *cbStats) check(kind int, readToo bool) {
	s.counts[kind].Add(1)
	ref := s.term.Load()
	if ref == nil {
		s.unchecked.Add(1)
		return
	}
	if ref.tl.TryLock() {
		s.violations[kind].Add(1)
		ref.tl.Unlock()
		return
	}
	if readToo {
		// frontend.go documents that read accessors may be used from callbacks
		w, h := ref.t.Size()
		if h > 0 && w > 0 {
			_ = ref.t.StyledLine(0, w, 0)
		}
		s.reads.Add(1)
	}
}

// recFrontend implements all eight termemu.Frontend methods.
type recFrontend struct {
	name  string
	stats *cbStats
	seen  atomic.Int64
}

var _ termemu.Frontend = (*recFrontend)(nil)

func (f *recFrontend) Bell() { f.seen.Add(1); f.stats.check(cbBell, false) }
func (f *recFrontend) RegionChanged(r termemu.Region, c termemu.ChangeReason) {
	f.seen.Add(1)
	f.stats.check(cbRegionChanged, true)
}
func (f *recFrontend) ScrollLines(y int)    { f.seen.Add(1); f.stats.check(cbScrollLines, false) }
func (f *recFrontend) CursorMoved(x, y int) { f.seen.Add(1); f.stats.check(cbCursorMoved, false) }
func (f *recFrontend) StyleChanged(s termemu.Style) {
	f.seen.Add(1)
	f.stats.check(cbStyleChanged, false)
}
func (f *recFrontend) ViewFlagChanged(v termemu.ViewFlag, value bool) {
	f.seen.Add(1)
	f.stats.check(cbViewFlagChanged, false)
}
func (f *recFrontend) ViewIntChanged(v termemu.ViewInt, value int) {
	f.seen.Add(1)
	f.stats.check(cbViewIntChanged, false)
}
func (f *recFrontend) ViewStringChanged(v termemu.ViewString, value string) {
	f.seen.Add(1)
	f.stats.check(cbViewStringChanged, false)
}
