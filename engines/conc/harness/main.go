// harness-conc is a runtime stress harness for the locking discipline of
// github.com/ricochet1k/termemu. See README.md.
package main

import (
	"bufio"
	"bytes"
	"context"
	"flag"
	"fmt"
	"os"
	"os/exec"
	"path/filepath"
	"regexp"
	"strconv"
	"strings"
	"time"
)

type config struct {
	seed      int64
	iters     int
	deadline  time.Duration
	dur       time.Duration
	stall     time.Duration
	workers   int
	par       int
	verbose   bool
	expectD29 bool
	expectD38 bool
	expectD43 bool
	expectDbg bool
}

var experiments = []struct {
	name  string
	run   func(*config)
	extra bool // not part of the default set; select it by name or with -run all
}{
	{"cb-locked", expCbLocked, false},
	{"park-probe", expParkProbe, false},
	{"write-park", expWritePark, false},
	{"stress", expStress, false},
	{"tty-attach", expTTYAttach, false},
	{"lock-paths", expLockPaths, false},
	{"concurrent-new", expConcurrentNew, true},
}

func main() {
	cfg := &config{}
	var (
		runList      = flag.String("run", "", "comma separated experiments: cb-locked,park-probe,write-park,stress,tty-attach,lock-paths (the default set), concurrent-new (extra), or the word all for all five")
		child        = flag.Bool("child", false, "run the selected experiments in this process (used by the parent; findings are printed, no SUMMARY)")
		outdir       = flag.String("outdir", "", "directory for child stderr logs and race reports (default: a new temp dir)")
		noraceReason = flag.String("norace-reason", "", "why the binary was built without -race (set by run.sh)")
	)
	flag.Int64Var(&cfg.seed, "seed", 1, "random seed")
	flag.IntVar(&cfg.iters, "iters", 150, "iterations per phase of cb-locked")
	flag.DurationVar(&cfg.deadline, "deadline", 200*time.Millisecond, "park-probe: how long the probe may wait for the terminal lock")
	flag.DurationVar(&cfg.dur, "dur", 6*time.Second, "stress / tty-attach: duration")
	flag.DurationVar(&cfg.stall, "stall", 5*time.Second, "watchdog: report a deadlock when a participant makes no progress for this long")
	flag.IntVar(&cfg.workers, "workers", 8, "stress / tty-attach: number of worker goroutines")
	flag.IntVar(&cfg.par, "par", 16, "park-probe: number of cut points probed in parallel (independent terminals)")
	flag.BoolVar(&cfg.verbose, "v", false, "verbose")
	flag.BoolVar(&cfg.expectD29, "expect-d29", true, "a tty-attach deadlock is a known defect (does not fail the exit code)")
	flag.BoolVar(&cfg.expectD38, "expect-d38", true, "lock held while waiting inside an escape sequence is a known defect")
	flag.BoolVar(&cfg.expectD43, "expect-d43", true, "the data race of ptyReadOne's unlocked reads is a known defect")
	flag.BoolVar(&cfg.expectDbg, "expect-debuginit", false, "the data race on the library's lazy debug initialisation (concurrent termemu.New) is a known defect")
	flag.Parse()

	var selected []string
	if *runList == "" || *runList == "all" {
		for _, e := range experiments {
			if !e.extra || *runList == "all" {
				selected = append(selected, e.name)
			}
		}
	} else {
		for _, n := range strings.Split(*runList, ",") {
			n = strings.TrimSpace(n)
			ok := false
			for _, e := range experiments {
				ok = ok || e.name == n
			}
			if !ok {
				fmt.Fprintf(os.Stderr, "unknown experiment %q\n", n)
				os.Exit(2)
			}
			selected = append(selected, n)
		}
	}

	if *child {
		unexpected := 0
		for _, n := range selected {
			for _, e := range experiments {
				if e.name == n {
					e.run(cfg)
					u, _ := flushFindings()
					unexpected += u
				}
			}
		}
		if unexpected > 0 {
			os.Exit(1)
		}
		return
	}

	os.Exit(parent(cfg, selected, *outdir, *noraceReason))
}

var findingRe = regexp.MustCompile(`^FINDING (\S+) count=(\d+) expected=(yes|no)`)

// parent runs every experiment in a child process so that a wedged or
// crashed experiment cannot take the others down.
func parent(cfg *config, selected []string, outdir, noraceReason string) int {
	if outdir == "" {
		d, err := os.MkdirTemp("", "harness-conc-")
		if err != nil {
			fmt.Fprintln(os.Stderr, err)
			return 2
		}
		outdir = d
	}
	_ = os.MkdirAll(outdir, 0o755)
	self, err := os.Executable()
	if err != nil {
		fmt.Fprintln(os.Stderr, err)
		return 2
	}
	fmt.Printf("NOTE harness-conc seed=%d iters=%d deadline=%v dur=%v stall=%v workers=%d race-detector=%v logs=%s\n",
		cfg.seed, cfg.iters, cfg.deadline, cfg.dur, cfg.stall, cfg.workers, raceEnabled, outdir)
	if !raceEnabled {
		r := noraceReason
		if r == "" {
			r = "binary was built without -race"
		}
		fmt.Printf("NOTE race detector unavailable: %s\n", r)
	}

	unexpected, expected := 0, 0
	for _, name := range selected {
		start := time.Now()
		u, e := runChild(cfg, self, name, outdir)
		unexpected += u
		expected += e
		fmt.Printf("NOTE %s finished in %v\n", name, time.Since(start).Round(10*time.Millisecond))
	}
	fmt.Printf("SUMMARY unexpected=%d expected=%d\n", unexpected, expected)
	if unexpected > 0 {
		return 1
	}
	return 0
}

func runChild(cfg *config, self, name, outdir string) (unexpected, expected int) {
	stderrPath := filepath.Join(outdir, name+".stderr")
	racePrefix := filepath.Join(outdir, name+".race")
	if old, _ := filepath.Glob(racePrefix + ".*"); len(old) > 0 {
		for _, f := range old {
			_ = os.Remove(f) // reports of an earlier run in the same -outdir
		}
	}
	stderrF, err := os.Create(stderrPath)
	if err != nil {
		fmt.Printf("FINDING harness-error(%s) count=1 expected=no detail=%q\n", name, err.Error())
		return 1, 0
	}
	defer stderrF.Close()

	limit := cfg.dur + cfg.stall + 60*time.Second
	ctx, cancel := context.WithTimeout(context.Background(), limit)
	defer cancel()
	args := []string{"-child", "-run", name,
		"-seed", strconv.FormatInt(cfg.seed, 10), "-iters", strconv.Itoa(cfg.iters),
		"-deadline", cfg.deadline.String(), "-dur", cfg.dur.String(), "-stall", cfg.stall.String(),
		"-workers", strconv.Itoa(cfg.workers), "-par", strconv.Itoa(cfg.par),
		fmt.Sprintf("-v=%v", cfg.verbose),
		fmt.Sprintf("-expect-d29=%v", cfg.expectD29), fmt.Sprintf("-expect-d38=%v", cfg.expectD38), fmt.Sprintf("-expect-d43=%v", cfg.expectD43),
		fmt.Sprintf("-expect-debuginit=%v", cfg.expectDbg)}
	cmd := exec.CommandContext(ctx, self, args...)
	cmd.Env = append(os.Environ(), "GORACE=halt_on_error=0 exitcode=0 atexit_sleep_ms=0 log_path="+racePrefix)
	var stdout bytes.Buffer
	cmd.Stdout = &stdout
	cmd.Stderr = stderrF
	runErr := cmd.Run()

	sawDeadlock := false
	sc := bufio.NewScanner(&stdout)
	sc.Buffer(make([]byte, 1<<20), 1<<20)
	for sc.Scan() {
		line := sc.Text()
		fmt.Println(line)
		if m := findingRe.FindStringSubmatch(line); m != nil {
			if m[3] == "yes" {
				expected++
			} else {
				unexpected++
			}
			if strings.HasPrefix(m[1], "deadlock-suspected") {
				sawDeadlock = true
			}
		}
	}

	exitCode := 0
	if runErr != nil {
		exitCode = -1
		if ee, ok := runErr.(*exec.ExitError); ok {
			exitCode = ee.ExitCode()
		}
	}
	stderrF.Sync()
	stderrText, _ := os.ReadFile(stderrPath)

	switch {
	case ctx.Err() == context.DeadlineExceeded:
		fmt.Printf("FINDING child-timeout(%s) count=1 expected=no detail=%q\n", name, fmt.Sprintf("killed after %v; stderr in %s", limit, stderrPath))
		unexpected++
	case exitCode == 0 || exitCode == 1:
		// normal completion; 1 = the child saw unexpected findings, already counted
	case exitCode == 3 && sawDeadlock:
		fmt.Printf("NOTE %s: child stopped itself after a suspected deadlock; goroutine dump in %s\n", name, stderrPath)
		for _, l := range deadlockExtract(string(stderrText)) {
			fmt.Println("NOTE   " + l)
		}
	default:
		// crashed: a panic in a library goroutine, a runtime fatal error, ...
		first := crashLine(string(stderrText))
		fmt.Printf("FINDING panic(child-crash:%s) count=1 expected=no detail=%q\n", name, fmt.Sprintf("exit=%d %s; stderr in %s", exitCode, first, stderrPath))
		unexpected++
	}

	// race reports: GORACE log_path files, plus anything on stderr
	var raceText strings.Builder
	if files, _ := filepath.Glob(racePrefix + ".*"); len(files) > 0 {
		for _, f := range files {
			b, _ := os.ReadFile(f)
			raceText.Write(b)
			raceText.WriteString("\n")
		}
	}
	raceText.Write(stderrText)
	d43, dbg, other, firstOther := classifyRaces(raceText.String())
	if dbg > 0 {
		exp := "no"
		if cfg.expectDbg {
			exp = "yes(debug-lazy-init)"
			expected++
		} else {
			unexpected++
		}
		fmt.Printf("FINDING data-race(%s)/debug-lazy-init count=%d expected=%s detail=%q\n", name, dbg, exp,
			"unsynchronised debugInitCalled/initDebug in debug.go when terminals are constructed concurrently; race reports in "+racePrefix+".*")
	}
	if d43 > 0 {
		exp := "no"
		if cfg.expectD43 {
			exp = "yes(D43)"
			expected++
		} else {
			unexpected++
		}
		fmt.Printf("FINDING data-race(%s)/ptyReadOne-unlocked-read count=%d expected=%s detail=%q\n", name, d43, exp, "race reports in "+racePrefix+".*")
	}
	if other > 0 {
		fmt.Printf("FINDING data-race(%s)/other count=%d expected=no detail=%q\n", name, other, firstOther+"; race reports in "+racePrefix+".*")
		unexpected++
	}
	return
}

var (
	d43Re   = regexp.MustCompile(`\(\*terminal\)\.ptyReadOne\(\)\n\s+\S*escapes\.go:(3[4-9]|4[0-4])\b`)
	frameRe = regexp.MustCompile(`(?m)^  (\S+)\(.*\)\n\s+(\S+\.go:\d+)`)
)

// classifyRaces splits the race detector output into reports. A report is
// D43 when one of its stacks contains a ptyReadOne frame located at
// escapes.go lines 34-44, i.e. ptyReadOne itself reading screen state before
// it takes the lock.
func classifyRaces(text string) (d43, dbg, other int, firstOther string) {
	parts := strings.Split(text, "WARNING: DATA RACE")
	for _, p := range parts[1:] {
		if i := strings.Index(p, "=================="); i >= 0 {
			p = p[:i]
		}
		if d43Re.MatchString(p) {
			d43++
			continue
		}
		if strings.Contains(p, "termemu.initDebug()") {
			dbg++
			continue
		}
		other++
		if firstOther == "" {
			var fr []string
			for _, m := range frameRe.FindAllStringSubmatch(p, 6) {
				fr = append(fr, m[1]+" "+shortFile(m[2]))
			}
			firstOther = strings.Join(fr, " <- ")
		}
	}
	return
}

func crashLine(stderr string) string {
	for _, l := range strings.Split(stderr, "\n") {
		if strings.HasPrefix(l, "panic:") || strings.HasPrefix(l, "fatal error:") {
			return l
		}
	}
	return "no panic line found"
}

// deadlockExtract picks the goroutines of the dump that are blocked on a mutex
// inside library code and returns a few frames of each.
func deadlockExtract(dump string) []string {
	var out []string
	shown := 0
	seen := map[string]bool{}
	for _, block := range strings.Split(dump, "\n\n") {
		if !strings.Contains(block, "sync.(*Mutex).Lock") || !strings.Contains(block, "termemu.") {
			continue
		}
		var fns []string
		for _, l := range strings.Split(block, "\n") {
			if strings.HasPrefix(l, "\t") || strings.HasPrefix(l, "goroutine ") {
				continue
			}
			if i := strings.LastIndex(l, "("); i > 0 {
				l = l[:i]
			}
			if strings.Contains(l, "termemu.") {
				fns = append(fns, strings.TrimPrefix(l, "github.com/ricochet1k/termemu."))
			}
			if len(fns) == 6 {
				break
			}
		}
		key := strings.Join(fns, " <- ")
		if seen[key] {
			continue
		}
		seen[key] = true
		out = append(out, "blocked in Mutex.Lock: "+key)
		shown++
		if shown == 4 {
			break
		}
	}
	return out
}
