package main

import (
	"math/rand"
	"strings"
)

// fragments is the vocabulary of the mixed scripts used by cb-locked, stress
// and tty-attach. Every fragment is complete: it leaves the parser in ground
// state.
var fragments = []string{
	"hello world", "The quick brown fox jumps over the lazy dog. ", "x", "abc def ghi",
	"\r\n", "\r", "\n", "\n\n\n\n", "\b", "\b\b\b", "\t", "\a", "\x7f", "\x00", "\x0b", "\x0c",
	"\x1b[A", "\x1b[3B", "\x1b[2C", "\x1b[10D", "\x1b[5G", "\x1b[4d", "\x1b[5;10H", "\x1b[H", "\x1b[99;99H", "\x1b[2;3f",
	"\x1b[J", "\x1b[1J", "\x1b[2J", "\x1b[K", "\x1b[1K", "\x1b[2K", "\x1b[3X", "\x1b[2P",
	"\x1b[m", "\x1b[0m", "\x1b[1;31m", "\x1b[4;7;42m", "\x1b[38;5;200m", "\x1b[48;2;10;20;30m", "\x1b[22;23;24;27m", "\x1b[90;105m",
	"\x1b[2;6r", "\x1b[r", "\x1b[3S", "\x1b[2T", "\x1b[L", "\x1b[2M", "\x1bM", "\x1bD",
	"\x1b[99;1H\n\n\n", // scroll at the bottom of the screen
	"\x1b[?25l", "\x1b[?25h", "\x1b[?1049h", "\x1b[?1049l", "\x1b[?1000h", "\x1b[?1000l", "\x1b[?1006h", "\x1b[?1006l",
	"\x1b[?1002h", "\x1b[?1003h", "\x1b[?1005h", "\x1b[?1005l", "\x1b[?9h", "\x1b[?9l",
	"\x1b[?1h", "\x1b[?1l", "\x1b[?7l", "\x1b[?7h", "\x1b[?12h", "\x1b[?1004h", "\x1b[?1004l", "\x1b[?2004h", "\x1b[?2004l",
	"\x1b]0;window title\x07", "\x1b]2;another title\x1b\\", "\x1b]6;/some/dir\x07", "\x1b]7;file\x07", "\x1b]112\x07",
	"\x1b=", "\x1b>", "\x1b(B", "\x1b)0", "\x1b#8", "\x1b[s", "\x1b[u", "\x1b[6n", "\x1b[5n", "\x1b[c", "\x1b[>c",
	"\x1b[>4;2m", "\x1b[>4m", "\x1b[>1u", "\x1b[<u", "\x1b[=1;1u", "\x1b[?u", "\x1b[1 q", "\x1b[22;0t",
	"\x1bP1$r0m\x1b\\",
	"caf\u00e9 ", "\u4e2d\u6587\u5b57 ", "\U0001F600", "e\u0301", "\U0001F468\u200d\U0001F469\u200d\U0001F467", "\U0001F1E9\U0001F1EA",
}

// mixedScript returns n random fragments joined together.
func mixedScript(rng *rand.Rand, n int) []byte {
	var sb strings.Builder
	for i := 0; i < n; i++ {
		sb.WriteString(fragments[rng.Intn(len(fragments))])
	}
	return []byte(sb.String())
}

// coverageScript contains every fragment once, in order, then some scrolling.
func coverageScript() []byte {
	return []byte(strings.Join(fragments, "") + "\x1b[?1049l\x1b[r\x1b[99;1H" + strings.Repeat("line\r\n", 40))
}

// randomChunks cuts b at random places (chunks of 1..maxChunk bytes). Cuts
// fall inside escape sequences and inside UTF-8 sequences on purpose.
func randomChunks(rng *rand.Rand, b []byte, maxChunk int) [][]byte {
	var out [][]byte
	for len(b) > 0 {
		n := 1 + rng.Intn(maxChunk)
		if n > len(b) {
			n = len(b)
		}
		out = append(out, b[:n])
		b = b[n:]
	}
	return out
}

type namedScript struct {
	name string
	data string
}

// parkScripts are the representative scripts for park-probe. Each is cut at
// every byte boundary. Each must leave the parser in ground state.
var parkScripts = []namedScript{
	{"plain-controls", "hi\r\nyo\b\t\a\x7f\x00\x0b\x0cz"},
	{"sgr", "ab\x1b[31mcd\x1b[0m\x1b[38;5;196;48;2;1;2;3mX\x1b[me"},
	{"cursor-erase", "\x1b[2J\x1b[10;20Hxy\x1b[K\x1b[A\x1b[3C\x1b[1J."},
	{"decset", "\x1b[?25l\x1b[?1049h!\x1b[?1049l\x1b[?25h\x1b[?1000;1006h"},
	{"osc-bel", "a\x1b]0;title\x07z"},
	{"osc-st", "a\x1b]2;t2\x1b\\z\x1b]112\x07"},
	{"dcs", "\x1bP1$r0m\x1b\\q"},
	{"two-byte-esc", "\x1b=\x1b>\x1b(B\x1bM\x1bD\x1b#8\x1b7k"},
	{"scroll-region", "\x1b[1;3r\n\n\n\n\x1b[2S\x1b[T\x1b[r"},
	{"replies", "\x1b[6n\x1b[5n\x1b[c\x1b[>c\x1b[?u"},
	{"csi-intermediate", "\x1b[1 q\x1b[?1$pw\x1b[>4;2m\x1b[=1;1u\x1b[<u"},
	{"utf8", "a\u00e9\u4e2d\U0001F600b"},
	{"grapheme", "e\u0301 \U0001F468\u200d\U0001F469 \U0001F1E9\U0001F1EA x"},
	{"wrap", "\x1b[1;78H0123456789\x1b[?7l\x1b[1;78H0123456789\x1b[?7h"},
}
