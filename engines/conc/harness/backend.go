package main

import (
	"io"
	"sync"
	"sync/atomic"
	"time"
)

// queueBackend is a termemu.Backend fed by the harness.
//
// Read blocks until a chunk is available. "Read was called and the queue is
// empty" is what the harness treats as "the read loop wants input".
// Write and SetSize never block and never touch the terminal: the library
// calls Write with the terminal lock held (DSR/DA replies) and SetSize from
// Resize.
type queueBackend struct {
	mu      sync.Mutex
	cond    *sync.Cond
	q       [][]byte
	maxQ    int
	closed  bool
	waiting bool // the read loop is blocked inside Read with an empty queue

	reads    atomic.Int64 // number of Read calls (progress of the read loop)
	written  atomic.Int64 // bytes received through Write
	setSizes atomic.Int64
}

func newQueueBackend(maxQ int) *queueBackend {
	b := &queueBackend{maxQ: maxQ}
	b.cond = sync.NewCond(&b.mu)
	return b
}

func (b *queueBackend) Read(p []byte) (int, error) {
	b.reads.Add(1)
	b.mu.Lock()
	defer b.mu.Unlock()
	for len(b.q) == 0 && !b.closed {
		b.waiting = true
		b.cond.Broadcast()
		b.cond.Wait()
	}
	b.waiting = false
	if len(b.q) == 0 {
		return 0, io.EOF
	}
	n := copy(p, b.q[0])
	if n == len(b.q[0]) {
		b.q = b.q[1:]
	} else {
		b.q[0] = b.q[0][n:]
	}
	b.cond.Broadcast()
	return n, nil
}

func (b *queueBackend) Write(p []byte) (int, error) {
	b.written.Add(int64(len(p)))
	return len(p), nil
}

func (b *queueBackend) SetSize(w, h int) error {
	b.setSizes.Add(1)
	return nil
}

// Feed appends a chunk; it blocks while the queue is full (maxQ > 0).
// It returns false when the backend was closed.
func (b *queueBackend) Feed(chunk []byte) bool {
	if len(chunk) == 0 {
		return true
	}
	c := append([]byte(nil), chunk...)
	b.mu.Lock()
	defer b.mu.Unlock()
	for b.maxQ > 0 && len(b.q) >= b.maxQ && !b.closed {
		b.cond.Wait()
	}
	if b.closed {
		return false
	}
	b.q = append(b.q, c)
	b.cond.Broadcast()
	return true
}

func (b *queueBackend) Close() {
	b.mu.Lock()
	b.closed = true
	b.cond.Broadcast()
	b.mu.Unlock()
}

// WaitIdle waits until the read loop is blocked in Read with nothing queued.
func (b *queueBackend) WaitIdle(timeout time.Duration) bool {
	deadline := time.Now().Add(timeout)
	for {
		b.mu.Lock()
		idle := b.waiting && len(b.q) == 0
		b.mu.Unlock()
		if idle {
			return true
		}
		if time.Now().After(deadline) {
			return false
		}
		time.Sleep(50 * time.Microsecond)
	}
}

// parkBackend delivers exactly the chunks the driver hands to it and reports
// every Read call that finds nothing pending on readCalled BEFORE it blocks.
// A message on readCalled therefore means: every byte delivered so far has
// been pulled by the read loop and the loop is asking for more.
type parkBackend struct {
	readCalled chan int
	feed       chan []byte
	pending    []byte
	seq        int
}

func newParkBackend() *parkBackend {
	return &parkBackend{readCalled: make(chan int, 64), feed: make(chan []byte)}
}

func (b *parkBackend) Read(p []byte) (int, error) {
	if len(b.pending) > 0 {
		n := copy(p, b.pending)
		b.pending = b.pending[n:]
		return n, nil
	}
	b.seq++
	b.readCalled <- b.seq
	d, ok := <-b.feed
	if !ok {
		return 0, io.EOF
	}
	n := copy(p, d)
	b.pending = d[n:]
	return n, nil
}

func (b *parkBackend) Write(p []byte) (int, error) { return len(p), nil }
func (b *parkBackend) SetSize(w, h int) error      { return nil }

func (b *parkBackend) waitRead(timeout time.Duration) bool {
	select {
	case <-b.readCalled:
		return true
	case <-time.After(timeout):
		return false
	}
}

// countWriter is a tee target.
type countWriter struct{ n atomic.Int64 }

func (c *countWriter) Write(p []byte) (int, error) {
	c.n.Add(int64(len(p)))
	return len(p), nil
}
