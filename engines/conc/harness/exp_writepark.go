package main

import (
	"fmt"
	"io"
	"strings"
	"time"

	"github.com/ricochet1k/termemu"
)

// writeParkBackend parks the read loop in Read like parkBackend and parks every
// Write until the driver releases it: a writer that blocks because the other
// side of the PTY is not reading.
type writeParkBackend struct {
	parkBackend
	writeEntered chan int
	release      chan struct{}
}

func newWriteParkBackend() *writeParkBackend {
	return &writeParkBackend{parkBackend: *newParkBackend(), writeEntered: make(chan int, 64), release: make(chan struct{})}
}

func (b *writeParkBackend) Write(p []byte) (int, error) {
	b.writeEntered <- len(p)
	<-b.release
	return len(p), nil
}

type writeCase struct {
	name   string
	prefix string // fed to the terminal first (mode setting)
	call   func(t termemu.Terminal) error
}

func writeCases() []writeCase {
	cs := []writeCase{
		{"Write", "", func(t termemu.Terminal) error { _, err := t.Write([]byte("x")); return err }},
		{"SendKey/rune", "", func(t termemu.Terminal) error {
			_, err := t.SendKey(termemu.KeyEvent{Code: termemu.KeyRune, Rune: 'a'})
			return err
		}},
		{"SendKey/up", "", func(t termemu.Terminal) error { _, err := t.SendKey(termemu.KeyEvent{Code: termemu.KeyUp}); return err }},
		{"SendKey/kitty", "\x1b[>1u", func(t termemu.Terminal) error {
			_, err := t.SendKey(termemu.KeyEvent{Code: termemu.KeyRune, Rune: 'a', Mod: termemu.ModCtrl})
			return err
		}},
	}
	modes := []string{"9", "1000", "1002", "1003"}
	encs := []string{"", "1005", "1006"}
	for _, m := range modes {
		for _, e := range encs {
			prefix := "\x1b[?" + m + "h"
			if e != "" {
				prefix += "\x1b[?" + e + "h"
			}
			name := "SendMouseRaw/" + m + "/" + e
			cs = append(cs, writeCase{name, prefix, func(t termemu.Terminal) error {
				ms, ok := t.(mouseSender)
				if !ok {
					return nil
				}
				return ms.SendMouseRaw(termemu.MBtn1, true, 0, 3, 4)
			}})
		}
	}
	return cs
}

// expWritePark: while an API call is blocked in Backend.Write, the terminal lock
// must be free (the read loop is parked in Read and nobody else uses the terminal).
func expWritePark(cfg *config) {
	const slack = 10 * time.Second
	probes, held, silent := 0, 0, 0
	var detail []string
	for _, wc := range writeCases() {
		be := newWriteParkBackend()
		term := termemu.New(nil, be)
		tl := term.(tryLocker)
		if !be.waitRead(slack) {
			addFinding("harness-error(write-park)", 1, false, "", wc.name+": read loop never called Read")
			continue
		}
		if wc.prefix != "" {
			be.feed <- []byte(wc.prefix)
			if !be.waitRead(slack) {
				addFinding("harness-error(write-park)", 1, false, "", wc.name+": read loop did not come back after the prefix")
				continue
			}
		}
		done := make(chan error, 1)
		go func() { done <- wc.call(term) }()
		entered := false
		select {
		case <-be.writeEntered:
			entered = true
		case <-done:
			silent++ // the call produced no bytes in this mode
		case <-time.After(slack):
			addFinding("harness-error(write-park)", 1, false, "", wc.name+": the call neither wrote nor returned")
		}
		if entered {
			probes++
			if tl.TryLock() {
				tl.Unlock()
			} else {
				held++
				detail = append(detail, wc.name)
			}
			close(be.release)
			select {
			case err := <-done:
				if err != nil && err != io.ErrShortWrite {
					addFinding("harness-error(write-park)", 1, false, "", wc.name+": "+err.Error())
				}
			case <-time.After(slack):
				addFinding("harness-error(write-park)", 1, false, "", wc.name+": the call did not return after the write was released")
			}
		}
		close(be.feed)
	}
	if held > 0 {
		addFinding("lock-held-while-writing", int64(held), false, "", "terminal lock held while the call is blocked in Backend.Write: "+strings.Join(detail, ", "))
	}
	word := "OK"
	if held > 0 {
		word = "BAD"
	}
	fmt.Printf("%s write-park probes=%d held=%d calls-without-output=%d\n", word, probes, held, silent)
}
