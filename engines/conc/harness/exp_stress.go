package main

import (
	"fmt"
	"io"
	"math/rand"
	"strings"
	"sync"
	"sync/atomic"
	"time"

	"github.com/ricochet1k/termemu"
)

type mouseSender interface {
	SendMouseRaw(termemu.MouseBtn, bool, termemu.MouseFlag, int, int) error
}

const (
	opRead = iota
	opWrite
	opSendKey
	opSendMouse
	opResize
	opSetTee
	opSetFrontend
	opKinds
)

var opNames = [opKinds]string{"read", "Write", "SendKey", "SendMouseRaw", "Resize", "SetTee", "SetFrontend"}

// checkScreen is the reader's consistency check; it must be called with the
// terminal lock held. hard is non-empty when a condition is violated that
// holds in every sequential run (so a violation points at a half-applied
// update or a reader racing with a writer). soft reports rows whose span
// widths do not add up to the screen width: the library violates that on its
// own in purely sequential runs with wide grapheme clusters (see README), so
// it is counted but is not treated as a concurrency finding.
func checkScreen(term termemu.Terminal) (hard, soft string) {
	w, h := term.Size()
	if w <= 0 || h <= 0 {
		return fmt.Sprintf("Size() = %dx%d", w, h), ""
	}
	lines := term.StyledLines(termemu.Region{X: 0, Y: 0, X2: w, Y2: h})
	if len(lines) != h {
		return fmt.Sprintf("len(StyledLines(full)) = %d, h = %d", len(lines), h), ""
	}
	for y, l := range lines {
		sum := 0
		for _, sp := range l.Spans {
			if sp.Width < 0 {
				return fmt.Sprintf("row %d has a span of width %d", y, sp.Width), ""
			}
			sum += sp.Width
		}
		if l.Width != w {
			return fmt.Sprintf("row %d: Line.Width = %d, w = %d", y, l.Width, w), ""
		}
		if sum != w && soft == "" {
			soft = fmt.Sprintf("row %d: span widths add up to %d, w = %d", y, sum, w)
		}
	}
	for y := 0; y < h; y++ {
		_ = term.Line(y)
		_ = term.ANSILine(y)
		sl := term.StyledLine(0, w, y)
		if sl.Width != w {
			return fmt.Sprintf("StyledLine(0,%d,%d).Width = %d", w, y, sl.Width), soft
		}
	}
	if w2, h2 := term.Size(); w2 != w || h2 != h {
		return fmt.Sprintf("Size() changed under the lock: %dx%d then %dx%d", w, h, w2, h2), soft
	}
	return "", soft
}

func expStress(cfg *config) {
	stats := &cbStats{}
	fes := []termemu.Frontend{
		&recFrontend{name: "A", stats: stats},
		&recFrontend{name: "B", stats: stats},
		&termemu.EmptyFrontend{},
	}
	qb := newQueueBackend(32)
	tee := termemu.NewTeeBackend(qb)
	term := termemu.NewWithMode(fes[0], tee, termemu.TextReadModeGrapheme)
	stats.setTerm(term)
	ms, hasMouse := term.(mouseSender)
	if !hasMouse {
		fmt.Println("NOTE stress: terminal does not expose SendMouseRaw; that operation is skipped")
	}

	wd := &watchdog{}
	stop := make(chan struct{})
	var wg sync.WaitGroup
	var opCounts [opKinds]atomic.Int64
	var fedBytes, softMismatch atomic.Int64

	// read loop progress = Read calls on the backend
	loopCtr := wd.add("read-loop")
	wg.Add(1)
	go func() {
		defer wg.Done()
		t := time.NewTicker(20 * time.Millisecond)
		defer t.Stop()
		for {
			select {
			case <-stop:
				loopCtr.Store(-1)
				return
			case <-t.C:
				loopCtr.Store(qb.reads.Load())
			}
		}
	}()

	prodCtr := wd.add("producer")
	wg.Add(1)
	go func() {
		defer wg.Done()
		defer prodCtr.Store(-1)
		rng := rand.New(rand.NewSource(cfg.seed + 100))
		for {
			for _, c := range randomChunks(rng, mixedScript(rng, 40), 64) {
				select {
				case <-stop:
					return
				default:
				}
				if !qb.Feed(c) {
					return
				}
				fedBytes.Add(int64(len(c)))
				prodCtr.Add(1)
			}
		}
	}()

	tees := []io.Writer{nil, io.Discard, &countWriter{}}
	keys := []termemu.KeyEvent{
		{Code: termemu.KeyRune, Rune: 'a'}, {Code: termemu.KeyRune, Rune: 'c', Mod: termemu.ModCtrl},
		{Code: termemu.KeyUp}, {Code: termemu.KeyDown, Mod: termemu.ModShift}, {Code: termemu.KeyHome},
		{Code: termemu.KeyEnter}, {Code: termemu.KeyTab, Mod: termemu.ModShift}, {Code: termemu.KeyF5},
		{Code: termemu.KeyBackspace, Mod: termemu.ModAlt}, {Code: termemu.KeyRune, Rune: 0x4e2d}, {Code: termemu.KeyEscape},
		// events that encode to no bytes unless the application enabled the matching enhancement (early-return paths)
		{Code: termemu.KeyRune, Rune: 'a', Event: termemu.KeyRelease}, {Code: termemu.KeyUp, Event: termemu.KeyRelease},
		{Code: termemu.KeyLeftShift, Mod: termemu.ModShift}, {Code: termemu.KeyCapsLock}, {Code: termemu.KeyLeftShift, Event: termemu.KeyRelease},
		{Code: termemu.KeyRune, Rune: 'x', Event: termemu.KeyRepeat}, {},
	}
	for i := 0; i < cfg.workers; i++ {
		ctr := wd.add(fmt.Sprintf("worker%d", i))
		wg.Add(1)
		go func(i int) {
			defer wg.Done()
			defer ctr.Store(-1)
			rng := rand.New(rand.NewSource(cfg.seed + 200 + int64(i)))
			for {
				select {
				case <-stop:
					return
				default:
				}
				op := rng.Intn(opKinds)
				if op == opResize && rng.Intn(4) != 0 {
					op = opRead // keep Resize frequent but not dominant
				}
				guard("stress/"+opNames[op], func() {
					switch op {
					case opRead:
						var hard, soft string
						term.WithLock(func() { hard, soft = checkScreen(term) })
						if hard != "" {
							addFinding("inconsistent-read", 1, false, "", hard)
						}
						if soft != "" {
							softMismatch.Add(1)
						}
					case opWrite:
						if _, err := term.Write([]byte("input")); err != nil {
							addFinding("write-error", 1, false, "", err.Error())
						}
					case opSendKey:
						if _, err := term.SendKey(keys[rng.Intn(len(keys))]); err != nil {
							addFinding("sendkey-error", 1, false, "", err.Error())
						}
					case opSendMouse:
						if hasMouse {
							btn := termemu.MouseBtn(rng.Intn(4))
							var mods termemu.MouseFlag
							if rng.Intn(3) == 0 {
								mods = termemu.MMotion
							}
							if err := ms.SendMouseRaw(btn, rng.Intn(2) == 0, mods, 1+rng.Intn(300), 1+rng.Intn(300)); err != nil {
								addFinding("sendmouse-error", 1, false, "", err.Error())
							}
						}
					case opResize:
						if err := term.Resize(1+rng.Intn(120), 1+rng.Intn(50)); err != nil {
							addFinding("resize-error", 1, false, "", err.Error())
						}
					case opSetTee:
						tee.SetTee(tees[rng.Intn(len(tees))])
					case opSetFrontend:
						term.SetFrontend(fes[rng.Intn(len(fes))])
					}
				})
				opCounts[op].Add(1)
				ctr.Add(1)
			}
		}(i)
	}

	wdDone := make(chan struct{})
	go func() {
		defer close(wdDone)
		wd.run(cfg.stall, stop, func(stalled []string, since time.Duration) {
			dieDeadlocked("deadlock-suspected(stress)", false, "", stalled, since)
		})
	}()

	time.Sleep(cfg.dur)
	close(stop)
	qb.Close()
	joined := make(chan struct{})
	go func() { wg.Wait(); close(joined) }()
	select {
	case <-joined:
	case <-time.After(cfg.stall + 2*time.Second):
		dieDeadlocked("deadlock-suspected(stress)", false, "", []string{"shutdown: workers did not return"}, cfg.dur)
	}
	<-wdDone

	for k := 0; k < cbKinds; k++ {
		if v := stats.violations[k].Load(); v > 0 {
			addFinding("callback-without-lock/"+cbNames[k], v, false, "", "TryLock succeeded inside the callback (stress)")
		}
	}
	var ops []string
	var total int64
	for k := 0; k < opKinds; k++ {
		n := opCounts[k].Load()
		total += n
		ops = append(ops, fmt.Sprintf("%s=%d", opNames[k], n))
	}
	fmt.Printf(okWord(stats.totalViolations() == 0)+" stress completed dur=%v workers=%d ops=%d fed-bytes=%d backend-reads=%d backend-written=%d callbacks=%d callback-violations=%d\n",
		cfg.dur, cfg.workers, total, fedBytes.Load(), qb.reads.Load(), qb.written.Load(), stats.total(), stats.totalViolations())
	fmt.Printf("NOTE stress ops %s\n", strings.Join(ops, " "))
	if n := softMismatch.Load(); n > 0 {
		fmt.Printf("NOTE stress row-width-mismatch seen by %d of %d reads (span widths of a row do not add up to the screen width; also happens sequentially, not counted as a concurrency finding)\n", n, opCounts[opRead].Load())
	}
}
