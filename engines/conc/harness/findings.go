package main

import (
	"fmt"
	"os"
	"runtime"
	"sort"
	"strings"
	"sync"
	"sync/atomic"
	"time"
)

type finding struct {
	kind     string
	count    int64
	expected bool
	tag      string // e.g. D38
	detail   string // first detail seen
}

var registry = struct {
	mu sync.Mutex
	m  map[string]*finding
}{m: map[string]*finding{}}

// addFinding records n occurrences of kind. expected says whether the finding
// is a known defect that must not fail the exit code; tag names it.
func addFinding(kind string, n int64, expected bool, tag, detail string) {
	registry.mu.Lock()
	defer registry.mu.Unlock()
	f := registry.m[kind]
	if f == nil {
		f = &finding{kind: kind, expected: expected, tag: tag, detail: detail}
		registry.m[kind] = f
	}
	f.count += n
}

func formatFinding(f *finding) string {
	exp := "no"
	if f.expected {
		exp = "yes"
		if f.tag != "" {
			exp += "(" + f.tag + ")"
		}
	}
	s := fmt.Sprintf("FINDING %s count=%d expected=%s", f.kind, f.count, exp)
	if f.detail != "" {
		d := f.detail
		if len(d) > 300 {
			d = d[:300] + "..."
		}
		s += fmt.Sprintf(" detail=%q", d)
	}
	return s
}

// flushFindings prints and clears the registry; it returns the number of
// unexpected and expected finding kinds.
func flushFindings() (unexpected, expected int) {
	registry.mu.Lock()
	defer registry.mu.Unlock()
	kinds := make([]string, 0, len(registry.m))
	for k := range registry.m {
		kinds = append(kinds, k)
	}
	sort.Strings(kinds)
	for _, k := range kinds {
		f := registry.m[k]
		fmt.Println(formatFinding(f))
		if f.expected {
			expected++
		} else {
			unexpected++
		}
	}
	registry.m = map[string]*finding{}
	return
}

// guard runs f and turns a panic in harness-side code (which includes library
// code called synchronously from a harness goroutine) into a finding.
func guard(where string, f func()) {
	defer func() {
		if r := recover(); r != nil {
			msg := fmt.Sprint(r)
			addFinding("panic("+where+")", 1, false, "", msg+" @ "+panicSite())
		}
	}()
	f()
}

// panicSite returns the innermost library frame of the current panic.
func panicSite() string {
	pcs := make([]uintptr, 64)
	n := runtime.Callers(3, pcs)
	frames := runtime.CallersFrames(pcs[:n])
	for {
		fr, more := frames.Next()
		if strings.Contains(fr.Function, "termemu") {
			return fmt.Sprintf("%s %s:%d", fr.Function, shortFile(fr.File), fr.Line)
		}
		if !more {
			break
		}
	}
	return "?"
}

func shortFile(p string) string {
	if i := strings.LastIndexByte(p, '/'); i >= 0 {
		return p[i+1:]
	}
	return p
}

// watchdog tracks one progress counter per participant. A participant that
// finished sets its counter to -1. If any live participant makes no progress
// for stall, onStall is called once with the names of the stalled ones.
type watchdog struct {
	mu    sync.Mutex
	names []string
	ctrs  []*atomic.Int64
}

func (w *watchdog) add(name string) *atomic.Int64 {
	c := new(atomic.Int64)
	w.mu.Lock()
	w.names = append(w.names, name)
	w.ctrs = append(w.ctrs, c)
	w.mu.Unlock()
	return c
}

func (w *watchdog) run(stall time.Duration, stop <-chan struct{}, onStall func(stalled []string, since time.Duration)) {
	w.mu.Lock()
	n := len(w.ctrs)
	w.mu.Unlock()
	last := make([]int64, n)
	lastChange := make([]time.Time, n)
	start := time.Now()
	for i := range lastChange {
		lastChange[i] = start
	}
	tick := time.NewTicker(100 * time.Millisecond)
	defer tick.Stop()
	for {
		select {
		case <-stop:
			return
		case now := <-tick.C:
			var stalled []string
			var oldest time.Time
			for i := 0; i < n; i++ {
				v := w.ctrs[i].Load()
				if v < 0 {
					continue
				}
				if v != last[i] {
					last[i] = v
					lastChange[i] = now
					continue
				}
				if now.Sub(lastChange[i]) > stall {
					stalled = append(stalled, fmt.Sprintf("%s(ops=%d)", w.names[i], v))
					if oldest.IsZero() || lastChange[i].Before(oldest) {
						oldest = lastChange[i]
					}
				}
			}
			if len(stalled) > 0 {
				onStall(stalled, oldest.Sub(start))
				return
			}
		}
	}
}

// dieDeadlocked reports a suspected deadlock, prints everything recorded so
// far, dumps all goroutine stacks to stderr and exits. Exit code 3 tells the
// parent that the child stopped itself.
func dieDeadlocked(kind string, expected bool, tag string, stalled []string, since time.Duration) {
	addFinding(kind, 1, expected, tag,
		fmt.Sprintf("no progress by %s; last progress about %v after start", strings.Join(stalled, ","), since.Round(time.Millisecond)))
	flushFindings()
	buf := make([]byte, 8<<20)
	n := runtime.Stack(buf, true)
	fmt.Fprintf(os.Stderr, "==== %s: goroutine dump ====\n", kind)
	os.Stderr.Write(buf[:n])
	fmt.Fprintf(os.Stderr, "\n==== end of goroutine dump ====\n")
	os.Exit(3)
}

func okWord(ok bool) string {
	if ok {
		return "OK"
	}
	return "BAD"
}
