package main

// escState mirrors the escape-sequence grammar the library's parser accepts
// (handleCommand, handleCmdCSI, handleCmdOSC, handleDCS in escapes.go). It is
// used only to label a prefix of the input as "ends inside an unterminated
// escape sequence" or not. It is deliberately a mirror of the library's
// grammar and not of ECMA-48: what matters is whether the library is in the
// middle of handleCommand after the prefix.
type escState int

const (
	stGround    escState = iota
	stEsc                // after ESC
	stEscInter           // ESC followed by nF intermediates 0x20-0x2f, waiting for the final
	stCharset            // ESC ( ) * + : one more byte
	stCSIEntry           // after ESC [ : prefix byte allowed
	stCSIParam           // after a prefix byte or inside the parameter list
	stCSISkip            // unsupported intermediates: skip to a final byte 0x40-0x7e
	stOSCNum             // OSC number
	stOSCStr             // OSC string
	stOSCStrEsc          // OSC string, last byte was ESC
	stDCS                // DCS payload
	stDCSEsc             // DCS payload, last byte was ESC
)

func (s escState) String() string {
	switch s {
	case stGround:
		return "ground"
	case stEsc:
		return "after-ESC"
	case stEscInter:
		return "ESC-intermediate"
	case stCharset:
		return "charset-designator"
	case stCSIEntry, stCSIParam:
		return "CSI-params"
	case stCSISkip:
		return "CSI-intermediate"
	case stOSCNum, stOSCStr, stOSCStrEsc:
		return "OSC-string"
	case stDCS, stDCSEsc:
		return "DCS-string"
	}
	return "?"
}

func csiParamByte(s escState, b byte) escState {
	if b == ';' || (b >= '0' && b <= '9') {
		return stCSIParam
	}
	if (b >= 0x20 && b <= 0x2f && b != '%') || (b >= 0x3a && b <= 0x3f) {
		// the library enters its skip loop with this byte; the byte is not a final
		return stCSISkip
	}
	return stGround
}

func (s escState) next(b byte) escState {
	switch s {
	case stGround:
		if b == 0x1b {
			return stEsc
		}
		return stGround
	case stEsc:
		switch b {
		case 'P':
			return stDCS
		case '[':
			return stCSIEntry
		case ']':
			return stOSCNum
		case '(', ')', '*', '+':
			return stCharset
		}
		if b >= 0x20 && b <= 0x2f {
			return stEscInter
		}
		return stGround
	case stEscInter:
		if b >= 0x20 && b <= 0x2f {
			return stEscInter
		}
		return stGround
	case stCharset:
		return stGround
	case stCSIEntry:
		if b == '?' || b == '>' || b == '<' || b == '=' {
			return stCSIParam
		}
		return csiParamByte(s, b)
	case stCSIParam:
		return csiParamByte(s, b)
	case stCSISkip:
		if b >= 0x40 && b <= 0x7e {
			return stGround
		}
		return stCSISkip
	case stOSCNum:
		if b >= '0' && b <= '9' {
			return stOSCNum
		}
		if b == ';' {
			return stOSCStr
		}
		return stGround // BEL, ST, or a malformed OSC the library abandons here
	case stOSCStr, stOSCStrEsc:
		if b == 7 || b == 0x9c {
			return stGround
		}
		if s == stOSCStrEsc && b == '\\' {
			return stGround
		}
		if b == 0x1b {
			return stOSCStrEsc
		}
		return stOSCStr
	case stDCS, stDCSEsc:
		if b == 0x9c {
			return stGround
		}
		if s == stDCSEsc && b == '\\' {
			return stGround
		}
		if b == 0x1b {
			return stDCSEsc
		}
		return stDCS
	}
	return stGround
}

func classify(prefix []byte) escState {
	s := stGround
	for _, b := range prefix {
		s = s.next(b)
	}
	return s
}
