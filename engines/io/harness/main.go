// Correspondence harness for property C16 (the I/O layer).
//
//	harness-io gen [seed] [quick]  prints the case lines (kinds 1,3,4,5,6) of the quantifier domain
//	harness-io genfill [seed]      prints the kind-2 case lines (one fill on a hand-built reader);
//	                               they are run by inpkg/io_fill_inpkg_test.go inside package termemu
//	harness-io run  < cases        runs the real code for every case line
//	harness-io compare A B         compares two answer files line by line
//
// The formats are described in coq/Model/IoCase.v; the same answer lines are
// produced by the extracted Coq function run_io.
//
// kind 1 runs the real read loop: VerifNew(frontend, scripted backend, rune mode,
// grid, buffered) and Step() until it returns an error.  What the terminal
// interpreted is read back from the terminal itself: the stream is built from
// tokens whose effect is observable and injective (text cells on a screen large
// enough never to scroll, window titles carrying a counter, BEL, DSR replies).
package main

import (
	"bufio"
	"bytes"
	"errors"
	"fmt"
	"io"
	"math/rand"
	"os"
	"strconv"
	"strings"

	"github.com/creack/pty"
	"github.com/ricochet1k/termemu"
)

const (
	screenW = 250
	screenH = 100
)

// ---------------------------------------------------------------- scripted backend

type readRes struct {
	b   []byte
	err bool
}

var errScript = errors.New("scripted read error")
var errWrite = errors.New("scripted write error")

type backend struct {
	rs        []readRes
	asked     []int
	delivered int
	lastN     int
	lastErr   error
	// writes
	wscript  [][2]int
	received []byte
	// SetSize
	sizes  [][2]int
	onSize func(w, h int)
}

func (s *backend) Read(p []byte) (int, error) {
	s.asked = append(s.asked, len(p))
	n, err := s.read(p)
	s.delivered += n
	s.lastN, s.lastErr = n, err
	return n, err
}

func (s *backend) read(p []byte) (int, error) {
	if len(s.rs) == 0 {
		return 0, io.EOF
	}
	r := &s.rs[0]
	n := copy(p, r.b)
	r.b = r.b[n:]
	if len(r.b) == 0 {
		var err error
		if r.err {
			// half of the failures are io.EOF, half another error: the loop must stop on both
			// (which one is a function of the bytes delivered so far, so a case replays exactly)
			if (s.delivered+n)%2 == 0 {
				err = io.EOF
			} else {
				err = errScript
			}
		}
		s.rs = s.rs[1:]
		return n, err
	}
	return n, nil
}

func (s *backend) Write(p []byte) (int, error) {
	if len(s.wscript) == 0 {
		s.received = append(s.received, p...)
		return len(p), nil
	}
	e := s.wscript[0]
	s.wscript = s.wscript[1:]
	n := e[0]
	if n < 0 {
		n = 0
	}
	if n > len(p) {
		n = len(p)
	}
	s.received = append(s.received, p[:n]...)
	if e[1] != 0 {
		return n, errWrite
	}
	return n, nil
}

func (s *backend) SetSize(w, h int) error {
	s.sizes = append(s.sizes, [2]int{w, h})
	if s.onSize != nil {
		s.onSize(w, h)
	}
	return nil
}

// ---------------------------------------------------------------- recording frontend

type frontend struct {
	termemu.EmptyFrontend
	titles []string
	bells  int
}

func (f *frontend) Bell() { f.bells++ }
func (f *frontend) ViewStringChanged(vs termemu.ViewString, value string) {
	if vs == termemu.VSWindowTitle {
		f.titles = append(f.titles, value)
	}
}

// ---------------------------------------------------------------- token streams

const (
	tkWrapOn = iota
	tkText
	tkTitle
	tkBell
	tkDSR
)

type token struct {
	kind  int
	bytes []byte
	text  string // tkText: the cluster; tkTitle: the title
}

var multibyte = []string{"é", "€", "\U00010348", "ß", "∈"}

func genTokens(rng *rand.Rand, target int) []token {
	toks := []token{{kind: tkWrapOn, bytes: []byte("\x1b[?7h")}}
	n := len(toks[0].bytes)
	counter := 0
	for n < target {
		var t token
		switch x := rng.Intn(100); {
		case x < 70:
			c := string(rune('a' + rng.Intn(26)))
			if rng.Intn(4) == 0 {
				c = string(rune('0' + rng.Intn(10)))
			}
			t = token{kind: tkText, bytes: []byte(c), text: c}
		case x < 82:
			c := multibyte[rng.Intn(len(multibyte))]
			t = token{kind: tkText, bytes: []byte(c), text: c}
		case x < 88:
			counter++
			title := fmt.Sprintf("t%d", counter)
			if rng.Intn(5) == 0 {
				title += strings.Repeat("x", rng.Intn(300))
			}
			term := "\x07"
			if rng.Intn(2) == 0 {
				term = "\x1b\\"
			}
			t = token{kind: tkTitle, bytes: []byte("\x1b]2;" + title + term), text: title}
		case x < 93:
			t = token{kind: tkBell, bytes: []byte{7}}
		default:
			pad := strings.Repeat("0", rng.Intn(6))
			t = token{kind: tkDSR, bytes: []byte("\x1b[" + pad + "5n")}
		}
		if n+len(t.bytes) > target {
			// finish exactly on the target with single-byte text
			c := string(rune('A' + rng.Intn(26)))
			t = token{kind: tkText, bytes: []byte(c), text: c}
		}
		toks = append(toks, t)
		n += len(t.bytes)
	}
	return toks
}

func streamOf(toks []token) []byte {
	var b []byte
	for _, t := range toks {
		b = append(b, t.bytes...)
	}
	return b
}

// ---------------------------------------------------------------- case generation

type lenErr struct{ n, e int }

func emitLoop(w *bufio.Writer, id *int, zeroEOF, buffered int, cuts []lenErr, stream []byte) {
	*id++
	fmt.Fprintf(w, "1 %d %d %d %d", *id, zeroEOF, buffered, len(cuts))
	for _, c := range cuts {
		fmt.Fprintf(w, " %d %d", c.n, c.e)
	}
	for _, b := range stream {
		fmt.Fprintf(w, " %d", b)
	}
	w.WriteByte('\n')
}

// cut the stream into reads of the given size pattern
func cutFixed(total, size int) []lenErr {
	var out []lenErr
	for total > 0 {
		n := size
		if n > total {
			n = total
		}
		out = append(out, lenErr{n, 0})
		total -= n
	}
	return out
}

func cutRandom(rng *rand.Rand, total, maxSize int, zeroPct int) []lenErr {
	var out []lenErr
	for total > 0 {
		if rng.Intn(100) < zeroPct {
			out = append(out, lenErr{0, 0})
			continue
		}
		n := 1 + rng.Intn(maxSize)
		if rng.Intn(3) == 0 {
			n = 1 + rng.Intn(4)
		}
		if n > total {
			n = total
		}
		out = append(out, lenErr{n, 0})
		total -= n
	}
	return out
}

func cloneCuts(c []lenErr) []lenErr { return append([]lenErr(nil), c...) }

// variants of one cut: no error, error injected at the given read index in both
// forms (with the data of that read; as an extra read without data), zero-length
// read inserted
func withErrAt(c []lenErr, i int, withData bool) []lenErr {
	out := cloneCuts(c)
	if withData {
		out[i].e = 1
		return out
	}
	out = append(out[:i], append([]lenErr{{0, 1}}, out[i:]...)...)
	return out
}

func withZeroAt(c []lenErr, i int) []lenErr {
	out := cloneCuts(c)
	return append(out[:i], append([]lenErr{{0, 0}}, out[i:]...)...)
}

// does the code under test make up io.EOF on a zero-length read (defect D50)?
func probeZeroEOF() int {
	be := &backend{rs: []readRes{{b: []byte("ab\xe4\xb8")}, {}, {b: []byte("\xadcd")}}}
	v := termemu.VerifNew(&frontend{}, be, termemu.TextReadModeRune, false, false)
	for i := 0; i < 50; i++ {
		if err := v.Step(); err != nil {
			break
		}
	}
	if len(be.rs) > 0 {
		return 1
	}
	return 0
}

func gen(w *bufio.Writer, seed int64, quick bool) {
	rng := rand.New(rand.NewSource(seed))
	id := 0
	// the model is the one of the repaired reader (zero_eof = 0); the probe only documents the code under test
	ze := 0
	fmt.Fprintf(w, "# C16 cases, seed %d; code under test has defect D50 (zero-length read): %d\n", seed, probeZeroEOF())

	// ---- kind 1: the read loop
	lengths := []int{5, 6, 17, 100, 1000, 4090, 4095, 4096, 4097, 4100, 8190, 8191, 8192, 8193, 8200,
		12287, 12288, 12289, 16383, 16384, 16385, 17001, 20011}
	sizes := []int{1, 2, 3, 7, 64, 1000, 4093, 4094, 4095, 4096, 4097, 5000, 8192, 9000, 30000}
	if quick {
		lengths = []int{5, 100, 4095, 4096, 4097, 8192, 8193, 16385}
		sizes = []int{1, 3, 64, 4095, 4096, 4097, 9000}
	}
	for _, L := range lengths {
		toks := genTokens(rng, L)
		stream := streamOf(toks)
		for bf := 0; bf <= 1; bf++ {
			for _, sz := range sizes {
				if sz == 1 && L > 4200 || sz <= 3 && L > 9000 {
					continue
				}
				c := cutFixed(len(stream), sz)
				emitLoop(w, &id, ze, bf, c, stream)
				// the same with the last read carrying the error, and an early EOF in the middle
				emitLoop(w, &id, ze, bf, withErrAt(c, len(c)-1, true), stream)
				emitLoop(w, &id, ze, bf, withErrAt(c, len(c)/2, false), stream)
				emitLoop(w, &id, ze, bf, withErrAt(c, len(c)/2, true), stream)
			}
			reps := 6
			if quick {
				reps = 2
			}
			for k := 0; k < reps; k++ {
				c := cutRandom(rng, len(stream), 5000, 10)
				emitLoop(w, &id, ze, bf, c, stream)
				i := rng.Intn(len(c))
				emitLoop(w, &id, ze, bf, withErrAt(c, i, rng.Intn(2) == 0), stream)
				c2 := cutRandom(rng, len(stream), 9, 25)
				if L <= 4200 {
					emitLoop(w, &id, ze, bf, c2, stream)
				}
			}
		}
	}
	// error and zero-length read injected at every read index of short streams
	nshort := 12
	if quick {
		nshort = 3
	}
	for k := 0; k < nshort; k++ {
		toks := genTokens(rng, 30+rng.Intn(60))
		stream := streamOf(toks)
		for _, mx := range []int{1, 2, 3, 5, 11} {
			c := cutRandom(rng, len(stream), mx, 0)
			if mx == 1 {
				c = cutFixed(len(stream), 1)
			}
			for bf := 0; bf <= 1; bf++ {
				emitLoop(w, &id, ze, bf, c, stream)
				for i := 0; i < len(c); i++ {
					emitLoop(w, &id, ze, bf, withErrAt(c, i, true), stream)
					emitLoop(w, &id, ze, bf, withErrAt(c, i, false), stream)
					emitLoop(w, &id, ze, bf, withZeroAt(c, i), stream)
					emitLoop(w, &id, ze, bf, withZeroAt(withZeroAt(c, i), i), stream)
				}
			}
		}
	}
	// corner cases: empty script, only errors, only zero-length reads
	for bf := 0; bf <= 1; bf++ {
		emitLoop(w, &id, ze, bf, nil, nil)
		emitLoop(w, &id, ze, bf, []lenErr{{0, 1}}, nil)
		emitLoop(w, &id, ze, bf, []lenErr{{0, 0}, {0, 0}, {0, 0}}, nil)
		emitLoop(w, &id, ze, bf, []lenErr{{0, 0}, {0, 1}, {3, 0}}, []byte("abc"))
		emitLoop(w, &id, ze, bf, []lenErr{{3, 1}, {3, 1}, {0, 1}, {1, 0}}, []byte("abcdefg"))
		// the witness of D50: a zero-length read while an incomplete rune is held
		emitLoop(w, &id, ze, bf, []lenErr{{4, 0}, {0, 0}, {3, 0}}, []byte("ab\xe4\xb8\xadcd"))
		emitLoop(w, &id, ze, bf, []lenErr{{4, 0}, {0, 1}, {3, 0}}, []byte("ab\xe4\xb8\xadcd"))
		emitLoop(w, &id, ze, bf, []lenErr{{4, 1}, {3, 0}}, []byte("ab\xe4\xb8\xadcd"))
	}

	// ---- kind 3: Terminal.Write against scripted (n, err) sequences
	for _, nb := range []int{0, 1, 2, 5, 16, 100} {
		b := make([]byte, nb)
		for i := range b {
			b[i] = byte(rng.Intn(256))
		}
		var scripts [][][2]int
		scripts = append(scripts, nil, [][2]int{{0, 1}}, [][2]int{{0, 0}}, [][2]int{{nb, 0}}, [][2]int{{nb, 1}}, [][2]int{{nb + 5, 0}}, [][2]int{{-3, 0}})
		// error / short write at every call index over single-byte and mixed short writes
		for _, step := range []int{1, 2, 3, 7} {
			var base [][2]int
			for left := nb; left > 0; left -= step {
				base = append(base, [2]int{step, 0})
			}
			scripts = append(scripts, base)
			for i := range base {
				for _, bad := range [][2]int{{0, 1}, {0, 0}, {1, 1}, {step, 1}} {
					s := append([][2]int(nil), base[:i]...)
					s = append(s, bad)
					s = append(s, base[i:]...)
					scripts = append(scripts, s)
				}
			}
		}
		for k := 0; k < 20; k++ {
			var s [][2]int
			for j := rng.Intn(8); j > 0; j-- {
				e := 0
				if rng.Intn(6) == 0 {
					e = 1
				}
				s = append(s, [2]int{rng.Intn(nb+3) - 1, e})
			}
			scripts = append(scripts, s)
		}
		for _, s := range scripts {
			id++
			fmt.Fprintf(w, "3 %d %d", id, nb)
			for _, v := range b {
				fmt.Fprintf(w, " %d", v)
			}
			for _, e := range s {
				fmt.Fprintf(w, " %d %d", e[0], e[1])
			}
			w.WriteByte('\n')
		}
	}

	// ---- kind 4: TeeBackend
	for k := 0; k < 200; k++ {
		nres := rng.Intn(9)
		var cuts []lenErr
		total := 0
		for j := 0; j < nres; j++ {
			n := rng.Intn(40)
			if rng.Intn(4) == 0 {
				n = 0
			}
			e := 0
			if rng.Intn(4) == 0 {
				e = 1
			}
			cuts = append(cuts, lenErr{n, e})
			total += n
		}
		id++
		fmt.Fprintf(w, "4 %d %d", id, nres)
		for _, c := range cuts {
			fmt.Fprintf(w, " %d %d", c.n, c.e)
		}
		for j := 0; j < total; j++ {
			fmt.Fprintf(w, " %d", rng.Intn(256))
		}
		w.WriteByte('\n')
	}

	// ---- kind 7: TeeBackend with SetTee called while a read is in progress
	for k := 0; k < 200; k++ {
		nres := 1 + rng.Intn(9)
		type lenErrSw struct{ n, e, sw int }
		var cuts []lenErrSw
		total := 0
		for j := 0; j < nres; j++ {
			n := rng.Intn(30)
			if rng.Intn(5) == 0 {
				n = 0
			}
			e := 0
			if rng.Intn(5) == 0 {
				e = 1
			}
			sw := 0
			if rng.Intn(2) == 0 {
				sw = 1 + rng.Intn(3)
			}
			cuts = append(cuts, lenErrSw{n, e, sw})
			total += n
		}
		id++
		fmt.Fprintf(w, "7 %d %d", id, nres)
		for _, c := range cuts {
			fmt.Fprintf(w, " %d %d %d", c.n, c.e, c.sw)
		}
		for j := 0; j < total; j++ {
			fmt.Fprintf(w, " %d", rng.Intn(256))
		}
		w.WriteByte('\n')
	}

	// ---- kind 5: Resize forwards (w, h) after both buffers were resized
	dims := []int{1, 2, 3, 14, 24, 80, 81, 132, 300}
	for _, w0 := range []int{1, 80, 200} {
		for _, h0 := range []int{1, 24, 60} {
			for _, ww := range dims {
				for _, hh := range dims {
					id++
					fmt.Fprintf(w, "5 %d %d %d %d %d\n", id, w0, h0, ww, hh)
				}
			}
		}
	}

	// ---- kind 6: the PTY winsize
	vals := []int{0, 1, 2, 24, 80, 255, 256, 4095, 4096, 8191, 8192, 8193, 65535, 65536, 65537, 70000, 131071, 131072, -1, -80}
	for _, ww := range vals {
		for _, hh := range vals {
			id++
			fmt.Fprintf(w, "6 %d %d %d\n", id, ww, hh)
		}
	}
}

func genFill(w *bufio.Writer, seed int64) {
	rng := rand.New(rand.NewSource(seed))
	id := 0
	fmt.Fprintf(w, "# C16 fill cases, seed %d\n", seed)
	emit := func(cap0, start, end int, data []int, e int, bs []int) {
		id++
		fmt.Fprintf(w, "2 %d %d %d %d %d", id, cap0, start, end, len(data))
		for _, d := range data {
			fmt.Fprintf(w, " %d", d)
		}
		fmt.Fprintf(w, " %d %d", e, len(bs))
		for _, b := range bs {
			fmt.Fprintf(w, " %d", b)
		}
		w.WriteByte('\n')
	}
	rb := func(n int) []int {
		out := make([]int, n)
		for i := range out {
			out[i] = 1 + rng.Intn(255)
		}
		return out
	}
	// every capacity 1..9, every start <= end <= cap, several read sizes incl. 0 and > space, both error flags
	for c := 1; c <= 9; c++ {
		for s := 0; s <= c; s++ {
			for e := s; e <= c; e++ {
				for _, nb := range []int{0, 1, 2, c - 1, c, c + 1, 2 * c, 2*c + 3} {
					if nb < 0 {
						continue
					}
					for ef := 0; ef <= 1; ef++ {
						emit(4096, s, e, rb(c), ef, rb(nb))
					}
				}
			}
		}
	}
	// a fresh reader (nil data) and the real capacity
	for _, nb := range []int{0, 1, 4095, 4096, 4097, 9000} {
		for ef := 0; ef <= 1; ef++ {
			emit(4096, 0, 0, nil, ef, rb(nb))
		}
	}
	for k := 0; k < 300; k++ {
		c := []int{16, 64, 4096, 8192}[rng.Intn(4)]
		s := rng.Intn(c + 1)
		e := s + rng.Intn(c-s+1)
		if rng.Intn(3) == 0 {
			e = c
		}
		if rng.Intn(4) == 0 {
			s = 0
		}
		if e < s {
			e = s
		}
		emit(4096, s, e, rb(c), rng.Intn(2), rb(rng.Intn(2*c+2)))
	}
}

// ---------------------------------------------------------------- running

func parseInts(line string) []int {
	fs := strings.Fields(line)
	out := make([]int, len(fs))
	for i, f := range fs {
		v, err := strconv.Atoi(f)
		if err != nil {
			panic(err)
		}
		out[i] = v
	}
	return out
}

func decResults(nres int, rest []int) ([]readRes, []byte) {
	lens := rest[:2*nres]
	stream := rest[2*nres:]
	var rs []readRes
	var all []byte
	pos := 0
	for i := 0; i < nres; i++ {
		n := lens[2*i]
		b := make([]byte, n)
		for j := 0; j < n; j++ {
			b[j] = byte(stream[pos+j])
		}
		pos += n
		all = append(all, b...)
		rs = append(rs, readRes{b: b, err: lens[2*i+1] != 0})
	}
	return rs, all
}

// tokens of a stream (the harness's own tokenizer of the grammar of genTokens;
// an incomplete trailing token is dropped)
func tokenize(s []byte) []token {
	var out []token
	for len(s) > 0 {
		switch {
		case s[0] == 7:
			out = append(out, token{kind: tkBell, bytes: s[:1]})
			s = s[1:]
		case s[0] == 0x1b:
			if bytes.HasPrefix(s, []byte("\x1b[?7h")) {
				out = append(out, token{kind: tkWrapOn, bytes: s[:5]})
				s = s[5:]
			} else if bytes.HasPrefix(s, []byte("\x1b]2;")) {
				i := bytes.IndexByte(s, 7)
				j := bytes.Index(s[1:], []byte("\x1b\\"))
				end, tl := -1, 0
				if i >= 0 && (j < 0 || i < j+1) {
					end, tl = i, 1
				} else if j >= 0 {
					end, tl = j+1, 2
				}
				if end < 0 {
					return out
				}
				out = append(out, token{kind: tkTitle, bytes: s[:end+tl], text: string(s[4:end])})
				s = s[end+tl:]
			} else if bytes.HasPrefix(s, []byte("\x1b[")) {
				i := bytes.IndexByte(s, 'n')
				if i < 0 {
					return out
				}
				out = append(out, token{kind: tkDSR, bytes: s[:i+1]})
				s = s[i+1:]
			} else {
				return out
			}
		default:
			n := 1
			switch {
			case s[0] >= 0xf0:
				n = 4
			case s[0] >= 0xe0:
				n = 3
			case s[0] >= 0xc0:
				n = 2
			}
			if len(s) < n {
				return out
			}
			out = append(out, token{kind: tkText, bytes: s[:n], text: string(s[:n])})
			s = s[n:]
		}
	}
	return out
}

// number of bytes interpreted, from what the terminal shows; -1 when the
// observation is not the interpretation of a token prefix of the stream
func interpreted(stream []byte, snap termemu.VerifSnapshot, fe *frontend, be *backend) int {
	var text []string
	for _, row := range snap.Main.Rows {
		for _, c := range row {
			if len(c.Text) > 0 && string(c.Text) != " " {
				text = append(text, string(c.Text))
			}
		}
	}
	replies := bytes.Count(be.received, []byte("\x1b[0n"))
	if replies*4 != len(be.received) {
		return -1
	}
	ti, tt, tb, tr := 0, 0, 0, 0
	k := 0
	for _, t := range tokenize(stream) {
		ok := false
		switch t.kind {
		case tkWrapOn:
			ok = snap.Main.AutoWrap
		case tkText:
			ok = ti < len(text) && text[ti] == t.text
			if ok {
				ti++
			}
		case tkTitle:
			ok = tt < len(fe.titles) && fe.titles[tt] == t.text
			if ok {
				tt++
			}
		case tkBell:
			ok = tb < fe.bells
			if ok {
				tb++
			}
		case tkDSR:
			ok = tr < replies
			if ok {
				tr++
			}
		}
		if !ok {
			break
		}
		k += len(t.bytes)
	}
	if os.Getenv("IO_DEBUG") != "" {
		fmt.Fprintf(os.Stderr, "text=%q titles=%q bells=%d replies=%d received=%q k=%d ti=%d tt=%d tb=%d tr=%d\n", text, fe.titles, fe.bells, replies, be.received, k, ti, tt, tb, tr)
	}
	if ti != len(text) || tt != len(fe.titles) || tb != fe.bells || tr != replies {
		return -1
	}
	return k
}

func runLoop(f []int, w *bufio.Writer) {
	id, buffered, nres := f[1], f[3], f[4]
	rs, stream := decResults(nres, f[5:])
	for _, grid := range []bool{false, true} {
		be := &backend{rs: append([]readRes(nil), rs...)}
		for i := range be.rs {
			be.rs[i].b = append([]byte(nil), be.rs[i].b...)
		}
		fe := &frontend{}
		v := termemu.VerifNew(fe, be, termemu.TextReadModeRune, grid, buffered != 0)
		_ = v.Terminal().Resize(screenW, len(stream)/screenW+3)
		be.sizes = nil
		stride := 1
		if len(stream) > 300 {
			stride = 197
		}
		var caps []int
		bad := 0
		note := func() {
			s := v.Snapshot()
			if !(0 <= s.RdStart && s.RdStart <= s.RdEnd && s.RdEnd <= s.RdLen) {
				bad++
			}
			if len(caps) == 0 || caps[len(caps)-1] != s.RdLen {
				caps = append(caps, s.RdLen)
			}
		}
		var err error
		steps := 0
		limit := 4*len(stream) + 4*nres + 100
		for ; steps < limit; steps++ {
			if err = v.Step(); err != nil {
				break
			}
			if steps%stride == 0 {
				note()
			}
		}
		note()
		snap := v.Snapshot()
		outcome := 3
		if err != nil {
			if be.lastErr != nil && err == be.lastErr {
				outcome = 1
			} else {
				outcome = 2
			}
		}
		k := interpreted(stream, snap, fe, be)
		infl := be.delivered - k - (snap.RdEnd - snap.RdStart)
		if k < 0 || bad > 0 {
			infl = -1000 - bad
		}
		// the grid and the span screen must agree: one line, emitted once; a
		// second line only when they differ
		line := fmt.Sprintf("1 %d %d %d %d %d %d %d %d %d", id, outcome, k, be.delivered, infl, snap.RdStart, snap.RdEnd, snap.RdLen, len(caps))
		for _, c := range caps {
			line += fmt.Sprintf(" %d", c)
		}
		var sb strings.Builder
		sb.WriteString(line)
		fmt.Fprintf(&sb, " %d", len(be.asked))
		for _, a := range be.asked {
			fmt.Fprintf(&sb, " %d", a)
		}
		if !grid {
			first = sb.String()
		} else if sb.String() != first {
			first = first + " GRID-DIFFERS " + sb.String()
		}
	}
	fmt.Fprintln(w, first)
}

var first string

func runWrite(f []int, w *bufio.Writer) {
	id, nb := f[1], f[2]
	b := make([]byte, nb)
	for i := range b {
		b[i] = byte(f[3+i])
	}
	rest := f[3+nb:]
	be := &backend{}
	for i := 0; i+1 < len(rest); i += 2 {
		be.wscript = append(be.wscript, [2]int{rest[i], rest[i+1]})
	}
	// a scripted backend with an exhausted script takes everything; mark the
	// end of the script so that this stays true while Write is running
	v := termemu.VerifNew(&frontend{}, be, termemu.TextReadModeRune, false, false)
	n, err := v.Terminal().Write(b)
	status := 0
	switch {
	case err == nil:
	case err == io.ErrShortWrite:
		status = 2
	case err == errWrite:
		status = 1
	default:
		status = 9
	}
	fmt.Fprintf(w, "3 %d %d %d", id, status, n)
	for _, c := range be.received {
		fmt.Fprintf(w, " %d", c)
	}
	w.WriteByte('\n')
}

func runTee(f []int, w *bufio.Writer) {
	id, nres := f[1], f[2]
	rs, _ := decResults(nres, f[3:])
	be := &backend{rs: rs}
	tee := termemu.NewTeeBackend(be)
	var buf countingWriter
	tee.SetTee(&buf)
	var ret []int
	p := make([]byte, 64)
	for i := 0; i < nres; i++ {
		n, err := tee.Read(p)
		e := 0
		if err != nil {
			e = 1
		}
		ret = append(ret, n, e)
	}
	fmt.Fprintf(w, "4 %d %d %d", id, buf.calls, len(buf.b))
	for _, c := range buf.b {
		fmt.Fprintf(w, " %d", c)
	}
	for _, r := range ret {
		fmt.Fprintf(w, " %d", r)
	}
	w.WriteByte('\n')
}

// switchBackend calls SetTee from inside Read, before it returns: what another goroutine does while the read loop is
// blocked in the backend
type switchBackend struct {
	rs   []readRes
	sws  []int
	tee  *termemu.TeeBackend
	a, b *countingWriter
}

func (s *switchBackend) Read(p []byte) (int, error) {
	if len(s.rs) == 0 {
		return 0, io.EOF
	}
	switch s.sws[0] {
	case 1:
		s.tee.SetTee(s.a)
	case 2:
		s.tee.SetTee(s.b)
	case 3:
		s.tee.SetTee(nil)
	}
	r := s.rs[0]
	s.rs, s.sws = s.rs[1:], s.sws[1:]
	n := copy(p, r.b)
	var err error
	if r.err {
		err = io.ErrUnexpectedEOF
	}
	return n, err
}
func (s *switchBackend) Write(p []byte) (int, error) { return len(p), nil }
func (s *switchBackend) SetSize(w, h int) error      { return nil }

func runTeeSwitch(f []int, w *bufio.Writer) {
	id, nres := f[1], f[2]
	var rs []readRes
	var sws []int
	stream := f[3+3*nres:]
	pos := 0
	for i := 0; i < nres; i++ {
		n := f[3+3*i]
		b := make([]byte, n)
		for j := 0; j < n; j++ {
			b[j] = byte(stream[pos+j])
		}
		pos += n
		rs = append(rs, readRes{b: b, err: f[3+3*i+1] != 0})
		sws = append(sws, f[3+3*i+2])
	}
	be := &switchBackend{rs: rs, sws: sws, a: &countingWriter{}, b: &countingWriter{}}
	tee := termemu.NewTeeBackend(be)
	be.tee = tee
	tee.SetTee(be.a)
	var ret []int
	p := make([]byte, 64)
	for i := 0; i < nres; i++ {
		n, err := tee.Read(p)
		e := 0
		if err != nil {
			e = 1
		}
		ret = append(ret, n, e)
	}
	fmt.Fprintf(w, "7 %d %d", id, len(be.a.b))
	for _, c := range be.a.b {
		fmt.Fprintf(w, " %d", c)
	}
	fmt.Fprintf(w, " -1 %d", len(be.b.b))
	for _, c := range be.b.b {
		fmt.Fprintf(w, " %d", c)
	}
	fmt.Fprint(w, " -1")
	for _, r := range ret {
		fmt.Fprintf(w, " %d", r)
	}
	w.WriteByte('\n')
}

type countingWriter struct {
	b     []byte
	calls int
}

func (c *countingWriter) Write(p []byte) (int, error) {
	c.calls++
	c.b = append(c.b, p...)
	return len(p), nil
}

func runResize(f []int, w *bufio.Writer) {
	id, w0, h0, ww, hh := f[1], f[2], f[3], f[4], f[5]
	be := &backend{}
	// through a TeeBackend as well: SetSize must be forwarded unchanged
	tee := termemu.NewTeeBackend(be)
	v := termemu.VerifNew(&frontend{}, tee, termemu.TextReadModeRune, id%2 == 0, false)
	_ = v.Terminal().Resize(w0, h0)
	be.sizes = nil
	var seen [4]int
	be.onSize = func(int, int) {
		s := v.Snapshot()
		seen = [4]int{s.Main.W, s.Main.H, s.Alt.W, s.Alt.H}
	}
	_ = v.Terminal().Resize(ww, hh)
	if len(be.sizes) != 1 {
		fmt.Fprintf(w, "5 %d calls=%d\n", id, len(be.sizes))
		return
	}
	fmt.Fprintf(w, "5 %d %d %d %d %d %d %d\n", id, be.sizes[0][0], be.sizes[0][1], seen[0], seen[1], seen[2], seen[3])
}

var ptyBackend *termemu.PTYBackend
var ptySlave *os.File
var ptyErr error

func runWinsize(f []int, w *bufio.Writer) {
	id, ww, hh := f[1], f[2], f[3]
	if ptyBackend == nil && ptyErr == nil {
		ptyBackend = &termemu.PTYBackend{}
		ptySlave, ptyErr = ptyBackend.Open()
	}
	if ptyErr != nil {
		fmt.Fprintf(w, "6 %d nopty\n", id)
		return
	}
	if err := ptyBackend.SetSize(ww, hh); err != nil {
		fmt.Fprintf(w, "6 %d error %v\n", id, err)
		return
	}
	ws, err := pty.GetsizeFull(ptySlave)
	if err != nil {
		fmt.Fprintf(w, "6 %d error %v\n", id, err)
		return
	}
	fmt.Fprintf(w, "6 %d %d %d %d %d\n", id, ws.Rows, ws.Cols, ws.X, ws.Y)
}

func run(r *bufio.Reader, w *bufio.Writer) {
	for {
		line, err := r.ReadString('\n')
		if t := strings.TrimSpace(line); t != "" && t[0] != '#' {
			f := parseInts(t)
			func() {
				defer func() {
					if p := recover(); p != nil {
						fmt.Fprintf(w, "%d %d panic %v\n", f[0], f[1], p)
					}
				}()
				switch f[0] {
				case 1:
					runLoop(f, w)
				case 3:
					runWrite(f, w)
				case 4:
					runTee(f, w)
				case 7:
					runTeeSwitch(f, w)
				case 5:
					runResize(f, w)
				case 6:
					runWinsize(f, w)
				default:
					fmt.Fprintf(w, "-2\n")
				}
			}()
		}
		if err != nil {
			return
		}
	}
}

func compare(a, b string, w *bufio.Writer) int {
	ra, err := os.ReadFile(a)
	if err != nil {
		panic(err)
	}
	rb, err := os.ReadFile(b)
	if err != nil {
		panic(err)
	}
	la := strings.Split(strings.TrimRight(string(ra), "\n"), "\n")
	lb := strings.Split(strings.TrimRight(string(rb), "\n"), "\n")
	bad := 0
	byKind := map[string][2]int{}
	n := len(la)
	if len(lb) < n {
		n = len(lb)
	}
	for i := 0; i < n; i++ {
		kind := strings.SplitN(la[i], " ", 2)[0]
		c := byKind[kind]
		c[0]++
		if la[i] != lb[i] {
			c[1]++
			bad++
			if bad <= 10 {
				x, y := la[i], lb[i]
				if len(x) > 300 {
					x = x[:300] + "..."
				}
				if len(y) > 300 {
					y = y[:300] + "..."
				}
				fmt.Fprintf(w, "line %d differs:\n  impl:  %s\n  model: %s\n", i+1, x, y)
			}
		}
		byKind[kind] = c
	}
	if len(la) != len(lb) {
		fmt.Fprintf(w, "line counts differ: %d vs %d\n", len(la), len(lb))
		bad++
	}
	for _, k := range []string{"1", "2", "3", "4", "5", "6"} {
		if c, ok := byKind[k]; ok {
			fmt.Fprintf(w, "kind %s: %d cases, %d disagreements\n", k, c[0], c[1])
		}
	}
	fmt.Fprintf(w, "total: %d cases, %d disagreements\n", n, bad)
	return bad
}

func main() {
	w := bufio.NewWriterSize(os.Stdout, 1<<20)
	defer w.Flush()
	if len(os.Args) < 2 {
		fmt.Fprintln(os.Stderr, "usage: harness-io gen [seed] [quick] | genfill [seed] | run | compare A B")
		os.Exit(2)
	}
	seed := int64(16)
	if len(os.Args) > 2 {
		if v, err := strconv.ParseInt(os.Args[2], 10, 64); err == nil {
			seed = v
		}
	}
	switch os.Args[1] {
	case "gen":
		gen(w, seed, len(os.Args) > 3 && os.Args[3] == "quick")
	case "genfill":
		genFill(w, seed)
	case "run":
		run(bufio.NewReaderSize(os.Stdin, 1<<20), w)
	case "compare":
		if compare(os.Args[2], os.Args[3], w) > 0 {
			w.Flush()
			os.Exit(1)
		}
	}
}
