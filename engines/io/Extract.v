From Coq Require Import ExtrOcamlBasic.
From Termemu Require Import IoCase.
Extraction "model.ml" run_io.
