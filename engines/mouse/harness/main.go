// Correspondence harness for property C13 (mouse reports).
//
//	harness-mouse gen            prints the case lines of the quantifier domain
//	harness-mouse run  < cases   calls the real SendMouseRaw for every case line
//	harness-mouse compare A B    compares two answer files line by line
//
// Case line:   mode enc btn press mods x y [n1 e1 n2 e2 ...]
// Answer line: <case line> -1 status calls bytes...
// status 0 = nil returned, 1 = error returned, 2 = panic; calls = number of
// backend.Write calls; bytes = everything the backend received.
// The same format is produced by the extracted Coq function run_mouse.
package main

import (
	"bufio"
	"errors"
	"fmt"
	"os"
	"strconv"
	"strings"

	"github.com/ricochet1k/termemu"
)

var coords = []int{1, 94, 95, 96, 127, 128, 222, 223, 224, 255, 256, 2015, 2016, 65535}

// coordinates around the other boundaries of Go's int -> rune -> UTF-8 conversion
var extraCoords = []int{0, -1, -33, -5000, 2047, 2048, 55263, 55264, 57311, 57312, 65503, 65504,
	1114079, 1114080, 2147483615, 2147483616, 4294967301}

var scripts = [][]int{
	{},                    // backend accepts everything
	{0, 1},                // immediate error
	{1, 0, 3, 1},          // one byte, then three bytes together with an error
	{2, 0, 0, 0},          // two bytes, then a zero-length write: io.ErrShortWrite
	{1, 0, 2, 0, 1000, 0}, // chunked, successful
	{1, 0, 1, 0, 1, 0, 1, 0, 1, 0, 1, 0, 1, 0, 1, 0, 0, 1}, // eight single bytes, then an error
}

func emit(w *bufio.Writer, mode, enc, btn, press, mods, x, y int, script []int) {
	fmt.Fprintf(w, "%d %d %d %d %d %d %d", mode, enc, btn, press, mods, x, y)
	for _, v := range script {
		fmt.Fprintf(w, " %d", v)
	}
	w.WriteByte('\n')
}

func gen(w *bufio.Writer) {
	// the quantifier domain of C13
	for mode := 0; mode <= 4; mode++ {
		for enc := 0; enc <= 2; enc++ {
			for btn := 0; btn <= 3; btn++ {
				for press := 0; press <= 1; press++ {
					for mods := 0; mods < 128; mods += 4 {
						for _, x := range coords {
							for _, y := range coords {
								for si, s := range scripts {
									if si >= 3 && x != y {
										continue // the last scripts only on the diagonal
									}
									emit(w, mode, enc, btn, press, mods, x, y, s)
								}
							}
						}
						for _, x := range extraCoords {
							emit(w, mode, enc, btn, press, mods, x, 1, scripts[0])
							emit(w, mode, enc, btn, press, mods, 7, x, scripts[0])
							emit(w, mode, enc, btn, press, mods, x, x, scripts[2])
						}
					}
				}
			}
		}
	}
	// outside the domain: values the byte types admit, unknown register values
	for _, mode := range []int{-1, 0, 1, 2, 3, 4, 5} {
		for _, enc := range []int{-1, 0, 1, 2, 3} {
			for _, btn := range []int{0, 3, 4, 7, 255} {
				for press := 0; press <= 1; press++ {
					for _, mods := range []int{0, 3, 32, 35, 67, 128, 160, 252, 255} {
						for _, x := range []int{1, 96, 300} {
							emit(w, mode, enc, btn, press, mods, x, 2, scripts[0])
							emit(w, mode, enc, btn, press, mods, x, 2, scripts[2])
						}
					}
				}
			}
		}
	}
}

// scripted backend
type backend struct {
	out    []byte
	script []int
	calls  int
}

func (b *backend) Read(p []byte) (int, error) { select {} }
func (b *backend) SetSize(w, h int) error     { return nil }
func (b *backend) Write(p []byte) (int, error) {
	b.calls++
	if len(b.script) < 2 {
		b.out = append(b.out, p...)
		return len(p), nil
	}
	n, e := b.script[0], b.script[1]
	b.script = b.script[2:]
	if n > len(p) {
		n = len(p)
	}
	if n < 0 {
		n = 0
	}
	b.out = append(b.out, p[:n]...)
	if e != 0 {
		return n, errors.New("scripted write error")
	}
	return n, nil
}

func send(vt *termemu.VerifTerm, btn, press, mods, x, y int) (status int) {
	defer func() {
		if r := recover(); r != nil {
			status = 2
		}
	}()
	err := vt.SendMouseRaw(termemu.MouseBtn(btn), press != 0, termemu.MouseFlag(mods), x, y)
	if err != nil {
		return 1
	}
	return 0
}

func run(r *bufio.Reader, w *bufio.Writer) {
	be := &backend{}
	vt := termemu.VerifNew(nil, be, termemu.TextReadModeRune, false, false)
	sc := bufio.NewScanner(r)
	sc.Buffer(make([]byte, 1<<20), 1<<20)
	for sc.Scan() {
		line := strings.TrimSpace(sc.Text())
		if line == "" || line[0] == '#' {
			continue
		}
		fs := strings.Fields(line)
		v := make([]int, len(fs))
		for i, f := range fs {
			n, err := strconv.Atoi(f)
			if err != nil {
				panic(err)
			}
			v[i] = n
		}
		be.out = be.out[:0]
		be.calls = 0
		be.script = v[7:]
		vt.VerifSetViewInt(termemu.VIMouseMode, v[0])
		vt.VerifSetViewInt(termemu.VIMouseEncoding, v[1])
		st := send(vt, v[2], v[3], v[4], v[5], v[6])
		w.WriteString(line)
		if st == 2 {
			// what a panicking call had already written is not part of the comparison
			w.WriteString(" -1 2 0\n")
			continue
		}
		fmt.Fprintf(w, " -1 %d %d", st, be.calls)
		for _, b := range be.out {
			w.WriteByte(' ')
			w.WriteString(strconv.Itoa(int(b)))
		}
		w.WriteByte('\n')
	}
}

var modeNames = []string{"off", "press(9)", "press/release(1000)", "button-motion(1002)", "any-motion(1003)"}
var encNames = []string{"X10", "UTF-8(1005)", "SGR(1006)"}

func compare(a, b string, w *bufio.Writer) int {
	fa, err := os.Open(a)
	if err != nil {
		panic(err)
	}
	fb, err := os.Open(b)
	if err != nil {
		panic(err)
	}
	sa, sb := bufio.NewScanner(fa), bufio.NewScanner(fb)
	sa.Buffer(make([]byte, 1<<20), 1<<20)
	sb.Buffer(make([]byte, 1<<20), 1<<20)
	agree, disagree := 0, 0
	buckets := map[string]int{}
	first := map[string]string{}
	var order []string
	for {
		oa, ob := sa.Scan(), sb.Scan()
		if !oa || !ob {
			if oa != ob {
				fmt.Fprintln(w, "files differ in length")
				disagree++
			}
			break
		}
		la, lb := sa.Text(), sb.Text()
		if la == lb {
			agree++
			continue
		}
		disagree++
		fs := strings.Fields(la)
		key := "other"
		if len(fs) >= 7 {
			mode, _ := strconv.Atoi(fs[0])
			enc, _ := strconv.Atoi(fs[1])
			mn, en := fmt.Sprint("mode=", mode), fmt.Sprint("enc=", enc)
			if mode >= 0 && mode < len(modeNames) {
				mn = modeNames[mode]
			}
			if enc >= 0 && enc < len(encNames) {
				en = encNames[enc]
			}
			// classify by comparing the two answers
			ia, ib := strings.Index(la, " -1 "), strings.Index(lb, " -1 ")
			ra, rb := strings.Fields(la[ia+4:]), strings.Fields(lb[ib+4:])
			what := "bytes differ"
			switch {
			case ra[0] == "2" || rb[0] == "2":
				what = "panic on one side"
			case len(ra) == 2 && len(rb) > 2:
				what = "A silent, B reports"
			case len(ra) > 2 && len(rb) == 2:
				what = "A reports, B silent"
			case ra[0] != rb[0]:
				what = "error flag differs"
			}
			key = fmt.Sprintf("%-20s %-12s %s", mn, en, what)
		}
		if buckets[key] == 0 {
			order = append(order, key)
			first[key] = "A: " + la + "\n      B: " + lb
		}
		buckets[key]++
	}
	fmt.Fprintf(w, "cases %d agree %d disagree %d\n", agree+disagree, agree, disagree)
	for _, k := range order {
		fmt.Fprintf(w, "  %7d  %s\n      %s\n", buckets[k], k, first[k])
	}
	return disagree
}

func main() {
	w := bufio.NewWriterSize(os.Stdout, 1<<20)
	defer w.Flush()
	if len(os.Args) < 2 {
		fmt.Fprintln(os.Stderr, "usage: harness-mouse gen | run | compare A B")
		os.Exit(2)
	}
	switch os.Args[1] {
	case "gen":
		gen(w)
	case "run":
		run(bufio.NewReaderSize(os.Stdin, 1<<20), w)
	case "compare":
		d := compare(os.Args[2], os.Args[3], w)
		w.Flush()
		if d != 0 {
			os.Exit(1)
		}
	default:
		fmt.Fprintln(os.Stderr, "unknown command")
		os.Exit(2)
	}
}
