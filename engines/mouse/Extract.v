From Coq Require Import ExtrOcamlBasic.
From Termemu Require Import MouseCase.
Extraction "model.ml" run_mouse.
