// harness-keys drives the real key encoder (termemu's encodeKey, through the
// -tags verif hook VerifEncodeKey) for the C12 correspondence check.
//
//	harness-keys gen quick    [-seed S] [-n N]   sampled case lines (tag 1)
//	harness-keys gen thorough [-seed S]          bucket lines (tag 2): every non-rune key code x 32 flag
//	                                             sets x modifyOtherKeys 0/1/2 x app-cursor, each bucket
//	                                             covering 256 modifier masks x events 0..3; plus rune buckets
//	harness-keys run                             reads lines on stdin, prints line ++ -1 ++ result
//
// Line formats are documented in coq/Model/KeysCase.v; the extracted model
// prints the same lines.
package main

import (
	"bufio"
	"bytes"
	"flag"
	"fmt"
	"os"
	"strconv"
	"strings"

	"github.com/ricochet1k/termemu"
)

// splitmix64: all randomness derives from the one seed
type rng struct{ s uint64 }

func (r *rng) next() uint64 {
	r.s += 0x9e3779b97f4a7c15
	z := r.s
	z = (z ^ (z >> 30)) * 0xbf58476d1ce4e5b9
	z = (z ^ (z >> 27)) * 0x94d049bb133111eb
	return z ^ (z >> 31)
}
func (r *rng) n(k int) int { return int(r.next() % uint64(k)) }

const numKeyCodes = 112 // KeyRune .. KeyISOLevel5Shift

func sampleRune(r *rng) int {
	switch r.n(10) {
	case 0, 1, 2, 3:
		return 1 + r.n(127) // ASCII (0 is "no rune")
	case 4:
		return 0x80 + r.n(0x800-0x80)
	case 5, 6:
		return 0x800 + r.n(0x10000-0x800) // BMP incl. surrogates and PUA
	case 7:
		return 0x10000 + r.n(0x110000-0x10000)
	case 8:
		// boundary values
		b := []int{0, 1, 0x1f, 0x20, 0x7e, 0x7f, 0x80, 0x9f, 0xa0, 0x7ff, 0x800, 0xd7ff, 0xd800, 0xdfff, 0xe000,
			57343, 57344, 57358, 57376, 57427, 57454, 63743, 63744, 0xfffd, 0xffff, 0x10000, 0x10ffff, 0x110000, -1, 0x7fffffff, 9, 13, 27, 127}
		return b[r.n(len(b))]
	default:
		return int('a') + r.n(26)
	}
}

type variant struct {
	shifted, base int
	text          []int
}

func sampleVariant(r *rng) variant {
	var v variant
	if r.n(2) == 0 {
		v.shifted = sampleRune(r)
	}
	if r.n(2) == 0 {
		v.base = sampleRune(r)
	}
	if r.n(2) == 0 {
		k := 1 + r.n(3)
		for i := 0; i < k; i++ {
			v.text = append(v.text, sampleRune(r))
		}
	}
	return v
}

func putCase(w *bufio.Writer, flags, mok, appc, code, rn, mod, event int, v variant) {
	fmt.Fprintf(w, "1 %d %d %d %d %d %d %d %d %d %d", flags, mok, appc, code, rn, mod, event, v.shifted, v.base, len(v.text))
	for _, t := range v.text {
		fmt.Fprintf(w, " %d", t)
	}
	w.WriteByte('\n')
}

func putSend(w *bufio.Writer, flags, mok, appc, code, rn, mod, event int, v variant) {
	fmt.Fprintf(w, "3 %d %d %d %d %d %d %d %d %d %d", flags, mok, appc, code, rn, mod, event, v.shifted, v.base, len(v.text))
	for _, t := range v.text {
		fmt.Fprintf(w, " %d", t)
	}
	w.WriteByte('\n')
}

func putBucket(w *bufio.Writer, flags, mok, appc, code, rn int, v variant) {
	fmt.Fprintf(w, "2 %d %d %d %d %d %d %d %d", flags, mok, appc, code, rn, v.shifted, v.base, len(v.text))
	for _, t := range v.text {
		fmt.Fprintf(w, " %d", t)
	}
	w.WriteByte('\n')
}

func genQuick(w *bufio.Writer, seed uint64, n int) {
	r := &rng{seed}
	// every ASCII rune x every flag set, plain / ctrl / alt / shift, press
	for rn := 0; rn < 128; rn++ {
		for flags := 0; flags < 32; flags++ {
			for _, mod := range []int{0, 1, 2, 4, 5, 6, 64, 8} {
				putCase(w, flags, r.n(3), r.n(2), 0, rn, mod, r.n(4), sampleVariant(r))
			}
		}
	}
	// every key code x every flag set once with no modifiers
	for code := 0; code < numKeyCodes+2; code++ {
		for flags := 0; flags < 32; flags++ {
			putCase(w, flags, r.n(3), r.n(2), code, sampleRune(r), 0, r.n(4), variant{})
		}
	}
	for i := 0; i < n; i++ {
		flags := r.n(32)
		if r.n(50) == 0 {
			flags = 32 + r.n(224) // bits outside the five defined flags
		}
		code := r.n(numKeyCodes)
		if r.n(3) == 0 {
			code = 0
		}
		if r.n(200) == 0 {
			code = numKeyCodes + r.n(5) // not a key code
		}
		rn := sampleRune(r)
		event := r.n(4)
		if r.n(100) == 0 {
			event = 4 + r.n(252)
		}
		mod, vr, mok, appc := r.n(256), sampleVariant(r), r.n(3), r.n(2)
		putCase(w, flags, mok, appc, code, rn, mod, event, vr)
		if i%8 == 0 {
			putSend(w, flags, mok, appc, code, rn, mod, event, vr)
		}
	}
}

func genThorough(w *bufio.Writer, seed uint64) {
	r := &rng{seed}
	// all non-rune key codes, exhaustively
	for code := 1; code < numKeyCodes; code++ {
		for flags := 0; flags < 32; flags++ {
			for mok := 0; mok < 3; mok++ {
				for appc := 0; appc < 2; appc++ {
					putBucket(w, flags, mok, appc, code, 0, sampleVariant(r))
				}
			}
		}
	}
	// runes: all ASCII exhaustively (app-cursor sampled), then sampled BMP/astral
	for rn := 0; rn < 128; rn++ {
		for flags := 0; flags < 32; flags++ {
			for mok := 0; mok < 3; mok++ {
				putBucket(w, flags, mok, r.n(2), 0, rn, sampleVariant(r))
			}
		}
	}
	for i := 0; i < 3000; i++ {
		putBucket(w, r.n(32), r.n(3), r.n(2), 0, sampleRune(r), sampleVariant(r))
	}
}


func newTerm() *termemu.VerifTerm {
	var out bytes.Buffer
	be := termemu.NewNoPTYBackend(strings.NewReader(""), &out)
	vt := termemu.VerifNew(&termemu.EmptyFrontend{}, be, termemu.TextReadModeRune, false, false)
	if vt == nil {
		fmt.Fprintln(os.Stderr, "harness-keys: VerifNew failed")
		os.Exit(1)
	}
	return vt
}

// shortBackend accepts at most [take] bytes per Write and reports the short count without an error (a pipe or pty
// under back-pressure does that); SendKey must still deliver the whole sequence (it goes through Terminal.Write).
type shortBackend struct {
	take int
	got  []byte
}

func (b *shortBackend) Read(p []byte) (int, error) { select {} }
func (b *shortBackend) Write(p []byte) (int, error) {
	n := len(p)
	if b.take > 0 && n > b.take {
		n = b.take
	}
	b.got = append(b.got, p[:n]...)
	return n, nil
}
func (b *shortBackend) SetSize(w, h int) error { return nil }

func newShortTerm() (*termemu.VerifTerm, *shortBackend) {
	be := &shortBackend{}
	vt := termemu.VerifNew(&termemu.EmptyFrontend{}, be, termemu.TextReadModeRune, false, false)
	if vt == nil {
		fmt.Fprintln(os.Stderr, "harness-keys: VerifNew failed")
		os.Exit(1)
	}
	return vt, be
}

func setState(vt *termemu.VerifTerm, flags, mok, appc int) {
	vt.VerifSetKbdFlags(flags)
	vt.VerifSetViewInt(termemu.VIModifyOtherKeys, mok)
	vt.VerifSetViewFlag(termemu.VFAppCursorKeys, appc != 0)
}

func runes(l []int) []rune {
	if len(l) == 0 {
		return nil
	}
	out := make([]rune, len(l))
	for i, v := range l {
		out[i] = rune(v)
	}
	return out
}

func run() {
	vt := newTerm()
	svt, sbe := newShortTerm()
	sc := bufio.NewScanner(os.Stdin)
	sc.Buffer(make([]byte, 1<<20), 1<<20)
	w := bufio.NewWriterSize(os.Stdout, 1<<20)
	defer w.Flush()
	for sc.Scan() {
		line := strings.TrimSpace(sc.Text())
		if line == "" {
			continue
		}
		if line[0] == '#' {
			fmt.Fprintln(w, line)
			continue
		}
		fs := strings.Fields(line)
		v := make([]int, len(fs))
		for i, f := range fs {
			x, err := strconv.Atoi(f)
			if err != nil {
				fmt.Fprintf(os.Stderr, "harness-keys: bad integer %q\n", f)
				os.Exit(1)
			}
			v[i] = x
		}
		w.WriteString(strings.Join(fs, " "))
		switch {
		case v[0] == 1 && len(v) >= 11:
			n := v[10]
			text := v[11:]
			if n < len(text) {
				text = text[:n]
			}
			setState(vt, v[1], v[2], v[3])
			out := vt.VerifEncodeKey(termemu.KeyEvent{Code: termemu.KeyCode(v[4]), Rune: rune(v[5]), Mod: termemu.KeyMod(v[6]),
				Event: termemu.KeyEventType(v[7]), Shifted: rune(v[8]), BaseLayout: rune(v[9]), Text: runes(text)})
			w.WriteString(" -1")
			for _, b := range out {
				fmt.Fprintf(w, " %d", b)
			}
		case v[0] == 3 && len(v) >= 11:
			// the same event through the public SendKey on a terminal whose backend takes 1..4 bytes per Write:
			// the bytes that arrived, then -3, the count SendKey returned and whether it returned an error
			n := v[10]
			text := v[11:]
			if n < len(text) {
				text = text[:n]
			}
			setState(svt, v[1], v[2], v[3])
			sbe.take = 1 + (v[4]+v[5]+v[6])%4
			sbe.got = sbe.got[:0]
			cnt, err := svt.Terminal().SendKey(termemu.KeyEvent{Code: termemu.KeyCode(v[4]), Rune: rune(v[5]), Mod: termemu.KeyMod(v[6]),
				Event: termemu.KeyEventType(v[7]), Shifted: rune(v[8]), BaseLayout: rune(v[9]), Text: runes(text)})
			w.WriteString(" -1")
			for _, b := range sbe.got {
				fmt.Fprintf(w, " %d", b)
			}
			e := 0
			if err != nil {
				e = 1
			}
			fmt.Fprintf(w, " -3 %d %d", cnt, e)
		case v[0] == 2 && len(v) >= 9:
			n := v[8]
			text := v[9:]
			if n < len(text) {
				text = text[:n]
			}
			setState(vt, v[1], v[2], v[3])
			h := uint32(2166136261)
			step := func(b byte) { h ^= uint32(b); h *= 16777619 }
			for mod := 0; mod < 256; mod++ {
				for ev := 0; ev < 4; ev++ {
					out := vt.VerifEncodeKey(termemu.KeyEvent{Code: termemu.KeyCode(v[4]), Rune: rune(v[5]), Mod: termemu.KeyMod(mod),
						Event: termemu.KeyEventType(ev), Shifted: rune(v[6]), BaseLayout: rune(v[7]), Text: runes(text)})
					step(byte(len(out)))
					for _, b := range out {
						step(b)
					}
				}
			}
			fmt.Fprintf(w, " -1 %d", h)
		default:
			w.WriteString(" -2")
		}
		w.WriteByte('\n')
	}
}

func main() {
	if len(os.Args) < 2 {
		fmt.Fprintln(os.Stderr, "usage: harness-keys gen quick|thorough [-seed S] [-n N] | run")
		os.Exit(2)
	}
	switch os.Args[1] {
	case "gen":
		if len(os.Args) < 3 {
			fmt.Fprintln(os.Stderr, "usage: harness-keys gen quick|thorough")
			os.Exit(2)
		}
		fs := flag.NewFlagSet("gen", flag.ExitOnError)
		seed := fs.Uint64("seed", 1, "seed")
		n := fs.Int("n", 300000, "number of sampled cases (quick)")
		fs.Parse(os.Args[3:])
		w := bufio.NewWriterSize(os.Stdout, 1<<20)
		defer w.Flush()
		switch os.Args[2] {
		case "quick":
			genQuick(w, *seed, *n)
		case "thorough":
			genThorough(w, *seed)
		default:
			fmt.Fprintln(os.Stderr, "unknown gen mode")
			os.Exit(2)
		}
	case "run":
		run()
	default:
		fmt.Fprintln(os.Stderr, "unknown command")
		os.Exit(2)
	}
}
