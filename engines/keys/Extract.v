From Coq Require Import ExtrOcamlBasic.
From Termemu Require Import KeysCase.
Extraction "keysmodel.ml" run_keys.
