From Coq Require Import ExtrOcamlBasic.
From Termemu Require Import UnisegCase.
Extraction "model.ml" run_uniseg.
