(* Hand-written driver for the extracted segmentation model (same pattern as driver.ml):
   reads lines of integers, hands them in batches to the extracted [run_uniseg],
   prints the answer lines.  No model logic lives here. *)
open Model

let rec pos_of_int n =
  if n = 1 then XH
  else if n land 1 = 0 then XO (pos_of_int (n lsr 1))
  else XI (pos_of_int (n lsr 1))

let z_of_int n =
  if n = 0 then Z0 else if n > 0 then Zpos (pos_of_int n) else Zneg (pos_of_int (-n))

let rec int_of_pos = function
  | XH -> 1
  | XO p -> 2 * int_of_pos p
  | XI p -> 2 * int_of_pos p + 1

let int_of_z = function
  | Z0 -> 0
  | Zpos p -> int_of_pos p
  | Zneg p -> - (int_of_pos p)

let parse_line s =
  String.split_on_char ' ' s
  |> List.filter (fun x -> x <> "")
  |> List.map (fun x -> z_of_int (int_of_string x))

let print_rec buf r =
  let first = ref true in
  List.iter (fun z ->
    if not !first then Buffer.add_char buf ' ';
    first := false;
    Buffer.add_string buf (string_of_int (int_of_z z))) r;
  Buffer.add_char buf '\n'

let () =
  let buf = Buffer.create 65536 in
  let batch = ref [] in
  let count = ref 0 in
  let flush_batch () =
    if !batch <> [] then begin
      List.iter (print_rec buf) (run_uniseg (List.rev !batch));
      print_string (Buffer.contents buf);
      Buffer.clear buf;
      batch := [];
      count := 0
    end in
  (try
    while true do
      let line = input_line stdin in
      if String.trim line <> "" && line.[0] <> '#' then begin
        batch := parse_line line :: !batch;
        incr count;
        if !count >= 4096 then flush_batch ()
      end
    done
  with End_of_file -> ());
  flush_batch ()
