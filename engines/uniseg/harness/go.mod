module verif/harness-uniseg

go 1.23.0

require github.com/ricochet1k/termemu v0.0.0

require (
	github.com/creack/pty v1.1.24 // indirect
	github.com/rivo/uniseg v0.4.7 // indirect
)

replace github.com/ricochet1k/termemu => /repo
