// Correspondence harness for the width and segmentation model (Model/Uniseg.v, Model/Grapheme.v).
//
//	harness-uniseg gen <seed> <n>   case lines: every block of 256 code points, then n random strings for
//	                                uniseg.Step and n for the reader's token rules in each text mode
//	harness-uniseg run < cases      the real code on every case line
//
// Formats: see Model/UnisegCase.v.
package main

import (
	"bufio"
	"fmt"
	"os"
	"strconv"
	"strings"
	"unicode/utf8"

	"github.com/ricochet1k/termemu"
)

type rng struct{ s uint64 }

func (r *rng) next() uint64 {
	r.s += 0x9e3779b97f4a7c15
	z := r.s
	z = (z ^ (z >> 30)) * 0xbf58476d1ce4e5b9
	z = (z ^ (z >> 27)) * 0x94d049bb133111eb
	return z ^ (z >> 31)
}
func (r *rng) n(k int) int { return int(r.next() % uint64(k)) }

// code points of every grapheme property class and width class, and the neighbours of class boundaries
var curated = []rune{
	0x0300, 0x0301, 0x0308, 0x0323, 0x036f, 0x0483, 0x0488, 0x0600, 0x0605, 0x0903, 0x093e, 0x094d, 0x0e31, 0x0e33, 0x0e47,
	0x1100, 0x115f, 0x1160, 0x1161, 0x11a7, 0x11a8, 0x11ff, 0xac00, 0xac01, 0xac1c, 0xd7a3, 0xd7b0, 0xd7cb,
	0x200b, 0x200c, 0x200d, 0x200e, 0x2028, 0x2029, 0x2060, 0x20e3, 0xfe00, 0xfe0e, 0xfe0f, 0xfeff, 0xe0020, 0xe007f, 0xe0100, 0xe01ef,
	0x00a9, 0x00ad, 0x00ae, 0x203c, 0x2122, 0x231a, 0x231b, 0x2328, 0x23e9, 0x2600, 0x263a, 0x2614, 0x2764, 0x2b50, 0x3030, 0x303d,
	0x1f1e6, 0x1f1fa, 0x1f1f8, 0x1f1ff, 0x1f3fb, 0x1f3fd, 0x1f3ff, 0x1f468, 0x1f469, 0x1f467, 0x1f600, 0x1f439, 0x1f4bb, 0x1f004, 0x1f0cf,
	0x2e3a, 0x2e3b, 0x4e16, 0x4e2d, 0x3000, 0x3001, 0xff01, 0xff61, 0xffe0, 0xffe8, 0x00a1, 0x00e9, 0x0416, 0x03bb, 0x20ac, 0x2500, 0x25a0,
	0x0085, 0x0080, 0x009f, 0x00a0, 0xfffd, 0xfffe, 0x10ffff, 0xe000, 0xf8ff, 0x1d165, 0x1d16d, 0x11000, 0x110bd, 0x16f51, 0x1e94a,
	'a', 'z', '1', '#', '*', ' ', '~', 0x0d, 0x0a, 0x1b, 0x09, 0x7f, 0x00,
}

func (r *rng) str() []byte {
	var b []byte
	n := 1 + r.n(9)
	for i := 0; i < n; i++ {
		switch k := r.n(20); {
		case k < 9:
			b = utf8.AppendRune(b, curated[r.n(len(curated))])
		case k < 13:
			b = append(b, byte('a'+r.n(26)))
		case k < 15:
			b = utf8.AppendRune(b, rune(r.n(0x3000)))
		case k < 17:
			b = utf8.AppendRune(b, rune(0x1f000+r.n(0x1000)))
		case k < 18:
			b = utf8.AppendRune(b, rune(r.n(0x110000)))
		case k < 19:
			b = append(b, byte(0x80+r.n(0x80))) // invalid or stray byte
		default:
			// the first bytes of a character only
			var t []byte
			t = utf8.AppendRune(t, curated[r.n(len(curated))])
			if len(t) > 1 {
				t = t[:1+r.n(len(t)-1)]
			}
			b = append(b, t...)
		}
	}
	return b
}

func gen(w *bufio.Writer, seed uint64, n int, blockMod int) {
	for base := 0; base < 0x110000; base += 256 {
		if base >= 0xd800 && base < 0xe000 {
			continue // surrogates are not runes: string(rune) is U+FFFD
		}
		// quick tier: the blocks below U+3400 and the emoji blocks always, of the others one in blockMod (rotating with the seed)
		if blockMod > 1 && base >= 0x3400 && !(base >= 0x1f000 && base < 0x1fb00) && (base/256)%blockMod != int(seed%uint64(blockMod)) {
			continue
		}
		fmt.Fprintf(w, "1 %d\n", base)
	}
	r := &rng{s: seed}
	line := func(prefix string, b []byte) {
		w.WriteString(prefix)
		for _, c := range b {
			fmt.Fprintf(w, " %d", c)
		}
		w.WriteByte('\n')
	}
	for i := 0; i < n; i++ {
		line("2", r.str())
	}
	for i := 0; i < n; i++ {
		line("3 1", r.str())
	}
	for i := 0; i < n/4; i++ {
		line("3 0", r.str())
	}
}

func run(in *bufio.Scanner, w *bufio.Writer) {
	for in.Scan() {
		text := strings.TrimSpace(in.Text())
		if text == "" || text[0] == '#' {
			continue
		}
		f := strings.Fields(text)
		nums := make([]int, len(f))
		for i, s := range f {
			nums[i], _ = strconv.Atoi(s)
		}
		w.WriteString(text)
		w.WriteString(" -1")
		switch nums[0] {
		case 1:
			for i := 0; i < 256; i++ {
				fmt.Fprintf(w, " %d", termemu.VerifRuneWidth(rune(nums[1]+i)))
			}
		case 2:
			b := make([]byte, len(nums)-1)
			for i, v := range nums[1:] {
				b[i] = byte(v)
			}
			state := -1
			for len(b) > 0 {
				c, wd, ns := termemu.VerifUnisegStep(b, state)
				fmt.Fprintf(w, " %d %d %d %d", c, wd, ns&15, ns>>21)
				if c <= 0 {
					break
				}
				b = b[c:]
				state = ns
			}
		case 3:
			mode := termemu.TextReadModeRune
			if nums[1] != 0 {
				mode = termemu.TextReadModeGrapheme
			}
			b := make([]byte, len(nums)-2)
			for i, v := range nums[2:] {
				b[i] = byte(v)
			}
			state, fm, ri := -1, false, false
			for len(b) > 0 {
				c, wd, merge, ns, nfm, nri, ok := termemu.VerifNextTokenInfo(b, state, fm, ri, mode)
				if !ok {
					w.WriteString(" -2")
					break
				}
				g, p := -1, -1
				if ns >= 0 {
					g, p = ns&15, ns>>21
				}
				fmt.Fprintf(w, " %d %d %d %d %d %d %d", c, wd, b2i(merge), g, p, b2i(nfm), b2i(nri))
				b = b[c:]
				state, fm, ri = ns, nfm, nri
			}
		}
		w.WriteByte('\n')
	}
}

func b2i(b bool) int {
	if b {
		return 1
	}
	return 0
}

func main() {
	w := bufio.NewWriterSize(os.Stdout, 1<<20)
	defer w.Flush()
	if len(os.Args) < 2 {
		os.Exit(2)
	}
	switch os.Args[1] {
	case "gen":
		seed, n := uint64(1), 2000
		if len(os.Args) > 2 {
			s, _ := strconv.ParseUint(os.Args[2], 10, 64)
			seed = s
		}
		if len(os.Args) > 3 {
			n, _ = strconv.Atoi(os.Args[3])
		}
		blockMod := 1
		if len(os.Args) > 4 {
			blockMod, _ = strconv.Atoi(os.Args[4])
		}
		gen(w, seed, n, blockMod)
	case "run":
		sc := bufio.NewScanner(os.Stdin)
		sc.Buffer(make([]byte, 1<<20), 1<<24)
		run(sc, w)
	}
}
