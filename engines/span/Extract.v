From Coq Require Import ExtrOcamlBasic.
From Termemu Require Import SpanCase.
Extraction "model.ml" run_span.
