// Function-level correspondence harness for the span buffer's row-splicing core.
//
//	harness-span gen [seed] [lines]   prints case lines (all integers)
//	harness-span run  < cases         calls the REAL functions of screen.go, prints answer lines
//	harness-span compare A B          compares two answer files line by line, per stream
//	harness-span widths               lists the runes that violate wc_multibyte
//
// Case line:   id op ntbl (rune width)*ntbl nsp span*nsp cache args...
// span:        fg bg istext rune width ntext byte*ntext
// Answer line: id -1 result...        (see coq/Model/SpanCase.v for the operations)
// The extracted Coq function run_span produces the same answer lines.
// id = stream*10000000 + k; stream 1 = well-formed rows inside the theorem
// domain (valid UTF-8, wc_multibyte holds), 2 = well-formed rows with invalid
// bytes, U+2E3A/U+2E3B and wide repeat runes, 3 = ill-formed rows.
package main

import (
	"bufio"
	"fmt"
	"math/rand"
	"os"
	"strconv"
	"strings"
	"unicode/utf8"

	"github.com/ricochet1k/termemu"
)

const mode = termemu.TextReadModeRune

type sty struct{ fg, bg uint32 }

var styles = []sty{
	{256, 256},                          // default
	{1, 256},                            // fg red
	{1 | 1<<24, 256},                    // fg red, bold: same colour index, different style
	{512 + 3 | 1<<24, 256},              // bright yellow, bold
	{0x80000000 | 0x123456, 4 | 1<<24},  // rgb fg, blue bg, strike
	{256 | 5<<24, 512 + 7},              // bold+italic, bright white bg
}

const ul = 256

var asciiPool = []rune("abcxyz 0~")
var safePool = []rune{'a', 'b', 'q', ' ', 'Z', 0xe9, 0x44e, 0x20ac, 0x2200, 0x4e2d, 0x65e5, 0x3042, 0x1f600, 0x1f389, 0x1d11e, 0x10348, 0x301, 0x200d, 0xfffd, 0xff21}
var exoticPool = []rune{0x2e3a, 0x2e3b}
var badBytes = []byte{0xff, 0x80, 0xbf, 0xc0, 0xf5}

type span = termemu.VerifSpan

func cw(r rune) int {
	w := termemu.VerifRuneWidth(r)
	if w <= 0 {
		w = 1
	}
	return w
}

// segment text with the real cluster stepper: width, complete?
func segWidth(text []byte) (int, bool) {
	w := 0
	for len(text) > 0 {
		_, consumed, cwid, _, ok := termemu.VerifStepCluster(text, -1, mode)
		if !ok || consumed <= 0 {
			return w, false
		}
		w += cwid
		text = text[consumed:]
	}
	return w, true
}

type gen struct {
	r      *rand.Rand
	w      *bufio.Writer
	stream int
	k      int
}

func (g *gen) style() sty { return styles[g.r.Intn(len(styles))] }

func (g *gen) text(nclusters int) []byte {
	var out []byte
	for i := 0; i < nclusters; i++ {
		switch {
		case g.stream >= 2 && g.r.Intn(6) == 0:
			out = append(out, badBytes[g.r.Intn(len(badBytes))])
		case g.stream >= 2 && g.r.Intn(6) == 0:
			out = utf8.AppendRune(out, exoticPool[g.r.Intn(len(exoticPool))])
		case g.r.Intn(3) == 0:
			out = utf8.AppendRune(out, asciiPool[g.r.Intn(len(asciiPool))])
		default:
			out = utf8.AppendRune(out, safePool[g.r.Intn(len(safePool))])
		}
	}
	return out
}

func (g *gen) asciiText(n int) []byte {
	out := make([]byte, n)
	for i := range out {
		out[i] = byte(asciiPool[g.r.Intn(len(asciiPool))])
	}
	return out
}

// a well-formed span (width = re-segmented width, complete clusters)
func (g *gen) span() span {
	s := g.style()
	switch g.r.Intn(5) {
	case 0:
		return span{FG: s.fg, BG: s.bg, UL: ul, Rune: ' ', Width: 1 + g.r.Intn(4)}
	case 1:
		r := rune('x')
		if g.r.Intn(2) == 0 {
			r = safePool[g.r.Intn(5)]
		}
		if g.stream >= 2 && g.r.Intn(3) == 0 {
			r = safePool[g.r.Intn(len(safePool))] // possibly wide or invalid as a repeat rune
			if g.r.Intn(4) == 0 {
				r = 0xd800
			}
		}
		return span{FG: s.fg, BG: s.bg, UL: ul, Rune: r, Width: 1 + g.r.Intn(4)}
	case 2:
		t := g.asciiText(1 + g.r.Intn(5))
		return span{FG: s.fg, BG: s.bg, UL: ul, Text: t, IsText: true, Width: len(t)}
	default:
		for {
			t := g.text(1 + g.r.Intn(4))
			w, ok := segWidth(t)
			if ok && w > 0 {
				return span{FG: s.fg, BG: s.bg, UL: ul, Text: t, IsText: true, Rune: rune(g.r.Intn(2) * 'r'), Width: w}
			}
		}
	}
}

func (g *gen) line(maxw int) ([]span, int) {
	for {
		n := 1 + g.r.Intn(5)
		var sp []span
		w := 0
		for i := 0; i < n; i++ {
			s := g.span()
			sp = append(sp, s)
			w += s.Width
		}
		if w <= maxw {
			cache := w
			if g.stream == 3 {
				// damage the row: wrong widths, empty spans, stale cache
				for i := range sp {
					switch g.r.Intn(6) {
					case 0:
						sp[i].Width += 1 + g.r.Intn(2)
					case 1:
						if sp[i].Width > 1 {
							sp[i].Width--
						}
					case 2:
						sp[i].Width = 0
					}
				}
				switch g.r.Intn(3) {
				case 0:
					cache = 0
				case 1:
					cache += g.r.Intn(3) - 1
				}
			}
			return sp, cache
		}
	}
}

func collectRunes(tbl map[rune]bool, sp span) {
	if sp.Rune >= 128 {
		tbl[sp.Rune] = true
	}
	t := sp.Text
	for len(t) > 0 {
		r, size := utf8.DecodeRune(t)
		if r >= 128 {
			tbl[r] = true
		}
		t = t[size:]
	}
}

func encSpan(sb *strings.Builder, sp span) {
	it := 0
	if sp.IsText && len(sp.Text) > 0 {
		it = 1
	}
	fmt.Fprintf(sb, " %d %d %d %d %d", sp.FG, sp.BG, it, sp.Rune, sp.Width)
	if it == 1 {
		fmt.Fprintf(sb, " %d", len(sp.Text))
		for _, b := range sp.Text {
			fmt.Fprintf(sb, " %d", b)
		}
	} else {
		sb.WriteString(" 0")
	}
}

func encBytes(sb *strings.Builder, b []byte) {
	fmt.Fprintf(sb, " %d", len(b))
	for _, c := range b {
		fmt.Fprintf(sb, " %d", c)
	}
}

// emit one case: spans/cache is the row, extra spans (inserts) and texts only feed the width table
func (g *gen) emit(op int, sp []span, cache int, extraSp []span, extraText []byte, args func(sb *strings.Builder)) {
	tbl := map[rune]bool{0xfffd: true}
	for _, s := range sp {
		collectRunes(tbl, s)
	}
	for _, s := range extraSp {
		collectRunes(tbl, s)
	}
	collectRunes(tbl, span{Text: extraText})
	var sb strings.Builder
	g.k++
	fmt.Fprintf(&sb, "%d %d %d", g.stream*10000000+g.k, op, len(tbl))
	// deterministic order
	keys := make([]int, 0, len(tbl))
	for r := range tbl {
		keys = append(keys, int(r))
	}
	for i := 1; i < len(keys); i++ {
		for j := i; j > 0 && keys[j] < keys[j-1]; j-- {
			keys[j], keys[j-1] = keys[j-1], keys[j]
		}
	}
	for _, r := range keys {
		fmt.Fprintf(&sb, " %d %d", r, termemu.VerifRuneWidth(rune(r)))
	}
	fmt.Fprintf(&sb, " %d", len(sp))
	for _, s := range sp {
		encSpan(&sb, s)
	}
	fmt.Fprintf(&sb, " %d", cache)
	args(&sb)
	g.w.WriteString(sb.String())
	g.w.WriteByte('\n')
}

func lineWidth(sp []span) int {
	w := 0
	for _, s := range sp {
		w += s.Width
	}
	return w
}

func styleAt(sp []span, x int) sty {
	pos := 0
	for _, s := range sp {
		if x < pos+s.Width {
			return sty{s.FG, s.BG}
		}
		pos += s.Width
	}
	return styles[0]
}

// inserts to try for a window of n cells at x
func (g *gen) inserts(sp []span, x, n int) []span {
	here := styleAt(sp, x)
	out := []span{{}} // Span{}
	pick := func(s span) { out = append(out, s) }
	st := here
	if g.r.Intn(3) == 0 {
		st = g.style()
	}
	wn := n
	if wn <= 0 || g.r.Intn(4) == 0 {
		wn = 1 + g.r.Intn(3)
	}
	switch g.r.Intn(3) {
	case 0:
		pick(span{FG: st.fg, BG: st.bg, UL: ul, Rune: ' ', Width: wn})
	case 1:
		pick(span{FG: st.fg, BG: st.bg, UL: ul, Rune: 'x', Width: wn})
	default:
		r := safePool[g.r.Intn(5)]
		if g.stream >= 2 {
			r = safePool[g.r.Intn(len(safePool))]
		}
		pick(span{FG: st.fg, BG: st.bg, UL: ul, Rune: r, Width: wn})
	}
	t := g.asciiText(wn)
	pick(span{FG: st.fg, BG: st.bg, UL: ul, Text: t, IsText: true, Width: wn})
	if g.r.Intn(2) == 0 {
		for {
			t := g.text(1 + g.r.Intn(3))
			w, ok := segWidth(t)
			if ok && w > 0 {
				s2 := g.style()
				if g.stream == 3 && g.r.Intn(3) == 0 {
					w += g.r.Intn(3) - 1
					if w < 0 {
						w = 0
					}
				}
				pick(span{FG: s2.fg, BG: s2.bg, UL: ul, Text: t, IsText: true, Width: w})
				break
			}
		}
	}
	return out
}

func (g *gen) stream1(nlines int) {
	for li := 0; li < nlines; li++ {
		sp, cache := g.line(14)
		W := lineWidth(sp)
		// 1 replaceRange, 11 insertSpan: every window, also beyond the row and negative
		for x := -1; x <= W+1; x++ {
			for n := -1; n <= W-x+1; n++ {
				for _, ins := range g.inserts(sp, x, n) {
					ins := ins
					g.emit(1, sp, cache, []span{ins}, nil, func(sb *strings.Builder) {
						fmt.Fprintf(sb, " %d %d", x, n)
						encSpan(sb, ins)
					})
				}
			}
			for _, ins := range g.inserts(sp, x, 0)[1:] {
				ins := ins
				g.emit(11, sp, cache, []span{ins}, nil, func(sb *strings.Builder) {
					fmt.Fprintf(sb, " %d", x)
					encSpan(sb, ins)
				})
			}
		}
		// 2 splitSpan: every span, every offset
		for _, s := range sp {
			for off := -1; off <= s.Width+1; off++ {
				off := off
				g.emit(2, []span{s}, s.Width, nil, nil, func(sb *strings.Builder) { fmt.Fprintf(sb, " %d", off) })
			}
		}
		// 3 truncateLine, 4 resizeLine, 13 lineCellWidth, 9 Line, 14 cells
		for w := -1; w <= W+2; w++ {
			w := w
			g.emit(3, sp, cache, nil, nil, func(sb *strings.Builder) { fmt.Fprintf(sb, " %d", w) })
			st := g.style()
			g.emit(4, sp, cache, nil, nil, func(sb *strings.Builder) { fmt.Fprintf(sb, " %d %d %d", w+1, st.fg, st.bg) })
		}
		g.emit(13, sp, cache, nil, nil, func(sb *strings.Builder) {})
		for _, w := range []int{W, W + 3, W - 2} {
			w := w
			g.emit(9, sp, cache, nil, nil, func(sb *strings.Builder) { fmt.Fprintf(sb, " %d", w) })
		}
		g.emit(14, sp, cache, nil, nil, func(sb *strings.Builder) {})
		// 5 deleteChars on a row of the screen's width
		if g.stream != 3 || W > 0 {
			for x := -2; x <= W+1; x++ {
				for n := -1; n <= W+2; n++ {
					x, n := x, n
					st := g.style()
					g.emit(5, sp, cache, nil, nil, func(sb *strings.Builder) { fmt.Fprintf(sb, " %d %d %d %d %d", W, st.fg, st.bg, x, n) })
				}
			}
		}
		// 6 rawWriteSpan, 12 rawWriteRune
		for x := -1; x <= W; x++ {
			for _, n := range []int{1, 2, 3, W - x, W - x + 1} {
				if n <= 0 {
					continue
				}
				ins := g.inserts(sp, x, n)
				pickd := ins[1+g.r.Intn(len(ins)-1)]
				if g.r.Intn(4) != 0 {
					pickd.Width = n // the callers always write n = insert.Width cells
					if pickd.IsText {
						pickd.Text = g.asciiText(n)
						if g.r.Intn(2) == 0 && n >= 2 {
							pickd.Text = append([]byte("\xe4\xb8\xad"), g.asciiText(n-2)...)
						}
					}
				}
				x := x
				g.emit(6, sp, cache, []span{pickd}, nil, func(sb *strings.Builder) {
					fmt.Fprintf(sb, " %d %d", W, x)
					encSpan(sb, pickd)
				})
			}
			r := safePool[g.r.Intn(len(safePool))]
			st := g.style()
			for _, rw := range []int{0, 1, 2} {
				x, rw := x, rw
				var b []byte
				b = utf8.AppendRune(b, r)
				g.emit(12, sp, cache, nil, b, func(sb *strings.Builder) { fmt.Fprintf(sb, " %d %d %d %d %d %d", W, st.fg, st.bg, x, r, rw) })
			}
		}
		// 8 StyledLine
		for x := -1; x <= W+1; x++ {
			for w := -1; w <= W-x+1; w++ {
				x, w := x, w
				g.emit(8, sp, cache, nil, nil, func(sb *strings.Builder) { fmt.Fprintf(sb, " %d %d %d", W, x, w) })
			}
		}
		// 7 clustersFitting, 10 byteIndexForCell on a fresh text
		t := g.text(1 + g.r.Intn(6))
		if g.stream == 3 && g.r.Intn(2) == 0 {
			t = append(t, 0xe4, 0xb8) // incomplete trailing rune
		}
		tw, _ := segWidth(t)
		for a := -1; a <= tw+2; a++ {
			a := a
			g.emit(7, nil, 0, nil, t, func(sb *strings.Builder) { fmt.Fprintf(sb, " %d", a); encBytes(sb, t) })
			g.emit(10, nil, 0, nil, t, func(sb *strings.Builder) { fmt.Fprintf(sb, " %d", a); encBytes(sb, t) })
		}
	}
}

// ---- run: parse a case line and call the real functions ----

type rd struct {
	v []int
	i int
}

func (r *rd) next() int {
	if r.i >= len(r.v) {
		panic("short case line")
	}
	x := r.v[r.i]
	r.i++
	return x
}

func (r *rd) span() span {
	fg, bg, it, rn, w, nt := r.next(), r.next(), r.next(), r.next(), r.next(), r.next()
	var t []byte
	for i := 0; i < nt; i++ {
		t = append(t, byte(r.next()))
	}
	return span{FG: uint32(fg), BG: uint32(bg), UL: ul, Text: t, IsText: it != 0, Rune: rune(rn), Width: w}
}

func (r *rd) bytes() []byte {
	nt := r.next()
	var t []byte
	for i := 0; i < nt; i++ {
		t = append(t, byte(r.next()))
	}
	return t
}

var ulViolations int

func outSpan(sb *strings.Builder, sp span) {
	it := 0
	if sp.IsText {
		it = 1
	}
	if sp.Width > 0 && sp.UL != ul {
		ulViolations++
	}
	fmt.Fprintf(sb, " %d %d %d %d %d %d", sp.FG, sp.BG, it, sp.Rune, sp.Width, len(sp.Text))
	for _, b := range sp.Text {
		fmt.Fprintf(sb, " %d", b)
	}
}

func outLine(sb *strings.Builder, sps []span, cache int) {
	fmt.Fprintf(sb, " %d", len(sps))
	for _, s := range sps {
		outSpan(sb, s)
	}
	fmt.Fprintf(sb, " %d", cache)
}

func sameLine(a []span, ca int, b []span, cb int) bool {
	var x, y strings.Builder
	outLine(&x, a, ca)
	outLine(&y, b, cb)
	return x.String() == y.String()
}

var capMismatch int

func runLine(fields []int) (res string) {
	r := &rd{v: fields}
	id, op, ntbl := r.next(), r.next(), r.next()
	r.i += 2 * ntbl
	nsp := r.next()
	var sps []span
	for i := 0; i < nsp; i++ {
		sps = append(sps, r.span())
	}
	cache := r.next()
	var sb strings.Builder
	fmt.Fprintf(&sb, "%d -1", id)
	defer func() {
		if e := recover(); e != nil {
			res = fmt.Sprintf("%d -1 -99", id) // the real function panicked
		}
	}()
	u32 := func() uint32 { return uint32(r.next()) }
	switch op {
	case 1:
		x, n := r.next(), r.next()
		ins := r.span()
		a, ca := termemu.VerifReplaceRangeCap(sps, cache, x, n, ins, mode, 0)
		b, cb := termemu.VerifReplaceRangeCap(sps, cache, x, n, ins, mode, 4)
		c, cc := termemu.VerifReplaceRange(sps, cache, x, n, ins, mode)
		if !sameLine(a, ca, b, cb) || !sameLine(a, ca, c, cc) {
			capMismatch++
			fmt.Fprintf(os.Stderr, "capacity-dependent result in case %d\n", id)
		}
		outLine(&sb, a, ca)
	case 2:
		off := r.next()
		a, b, c := termemu.VerifSplitSpan(sps[0], off, mode)
		outSpan(&sb, a)
		outSpan(&sb, b)
		outSpan(&sb, c)
	case 3:
		a, ca := termemu.VerifTruncateLine(sps, cache, r.next(), mode)
		outLine(&sb, a, ca)
	case 4:
		w := r.next()
		fg, bg := u32(), u32()
		a, ca := termemu.VerifResizeLine(sps, cache, w, fg, bg, ul, mode)
		outLine(&sb, a, ca)
	case 5:
		W := r.next()
		fg, bg := u32(), u32()
		x, n := r.next(), r.next()
		a, ca := termemu.VerifRowDeleteChars(sps, cache, W, fg, bg, ul, x, n, mode)
		outLine(&sb, a, ca)
	case 6:
		W, x := r.next(), r.next()
		ins := r.span()
		a, ca, p := termemu.VerifRowWriteSpan(sps, cache, W, x, ins, mode)
		if p {
			sb.WriteString(" 2")
		} else {
			sb.WriteString(" 0")
			outLine(&sb, a, ca)
		}
	case 7:
		avail := r.next()
		i, w := termemu.VerifClustersFitting(r.bytes(), avail, mode)
		fmt.Fprintf(&sb, " %d %d", i, w)
	case 8:
		W, x, w := r.next(), r.next(), r.next()
		a, lw := termemu.VerifRowStyledLine(sps, cache, W, x, w, mode)
		outLine(&sb, a, lw)
	case 9:
		for _, b := range []byte(termemu.VerifRowLine(sps, cache, r.next())) {
			fmt.Fprintf(&sb, " %d", b)
		}
	case 10:
		off := r.next()
		i, w := termemu.VerifByteIndexForCell(r.bytes(), off, mode)
		fmt.Fprintf(&sb, " %d %d", i, w)
	case 11:
		x := r.next()
		a, ca := termemu.VerifInsertSpan(sps, cache, x, r.span(), mode)
		outLine(&sb, a, ca)
	case 12:
		W := r.next()
		fg, bg := u32(), u32()
		x, rn, rw := r.next(), r.next(), r.next()
		a, ca, p := termemu.VerifRowWriteRune(sps, cache, W, fg, bg, ul, x, rune(rn), rw, mode)
		if p {
			sb.WriteString(" 2")
		} else {
			sb.WriteString(" 0")
			outLine(&sb, a, ca)
		}
	case 13:
		fmt.Fprintf(&sb, " %d", termemu.VerifLineCellWidth(sps, cache))
	case 14:
		cells, _ := termemu.VerifExpandSpans(sps, mode)
		for _, c := range cells {
			fmt.Fprintf(&sb, " %d %d %d %d", c.Width, c.FG, c.BG, len(c.Text))
			for _, b := range c.Text {
				fmt.Fprintf(&sb, " %d", b)
			}
		}
	default:
		sb.WriteString(" -2")
	}
	return sb.String()
}

func main() {
	if len(os.Args) < 2 {
		fmt.Fprintln(os.Stderr, "usage: harness-span gen [seed] [lines] | run | compare A B | widths")
		os.Exit(2)
	}
	w := bufio.NewWriterSize(os.Stdout, 1<<20)
	defer w.Flush()
	switch os.Args[1] {
	case "gen":
		seed, lines := int64(1), 40
		if len(os.Args) > 2 {
			seed, _ = strconv.ParseInt(os.Args[2], 10, 64)
		}
		if len(os.Args) > 3 {
			lines, _ = strconv.Atoi(os.Args[3])
		}
		for stream := 1; stream <= 3; stream++ {
			g := &gen{r: rand.New(rand.NewSource(seed*3 + int64(stream))), w: w, stream: stream}
			g.stream1(lines)
		}
	case "run":
		sc := bufio.NewScanner(os.Stdin)
		sc.Buffer(make([]byte, 1<<20), 1<<24)
		for sc.Scan() {
			f := strings.Fields(sc.Text())
			if len(f) == 0 || f[0] == "#" {
				continue
			}
			v := make([]int, len(f))
			for i, s := range f {
				v[i], _ = strconv.Atoi(s)
			}
			w.WriteString(runLine(v))
			w.WriteByte('\n')
		}
		w.Flush()
		fmt.Fprintf(os.Stderr, "capacity-dependent results: %d, underline-word changes: %d\n", capMismatch, ulViolations)
	case "compare":
		a, _ := os.ReadFile(os.Args[2])
		b, _ := os.ReadFile(os.Args[3])
		la := strings.Split(strings.TrimSpace(string(a)), "\n")
		lb := strings.Split(strings.TrimSpace(string(b)), "\n")
		if len(la) != len(lb) {
			fmt.Fprintf(w, "line counts differ: %d vs %d\n", len(la), len(lb))
		}
		agree := map[int]int{}
		dis := map[int]int{}
		pan := map[int]int{}
		shown := 0
		for i := 0; i < len(la) && i < len(lb); i++ {
			id, _ := strconv.Atoi(strings.Fields(la[i])[0])
			st := id / 10000000
			if strings.HasSuffix(la[i], " -1 -99") {
				pan[st]++
				continue
			}
			if la[i] == lb[i] {
				agree[st]++
			} else {
				dis[st]++
				if shown < 12 {
					fmt.Fprintf(w, "DISAGREE\n  impl:  %s\n  model: %s\n", la[i], lb[i])
					shown++
				}
			}
		}
		for st := 1; st <= 3; st++ {
			fmt.Fprintf(w, "stream %d: agree %d, disagree %d, implementation panics %d\n", st, agree[st], dis[st], pan[st])
		}
	case "widths":
		for r := rune(0); r <= 0x10ffff; r++ {
			if r >= 0xd800 && r <= 0xdfff {
				continue
			}
			n := utf8.RuneLen(r)
			lim := n - 1
			if lim < 1 {
				lim = 1
			}
			if cw(r) > lim {
				fmt.Fprintf(w, "U+%04X bytes %d cells %d\n", r, n, cw(r))
			}
		}
	}
}
