// harness-tty: correspondence check for the TTY-mirror half of C11.
//
// An inner terminal (span or grid buffer) has a real termemu.TTYFrontend attached
// to a random region.  The frontend writes into a byte recorder; a wrapping
// Frontend records every callback (kind, arguments and, for RegionChanged, the
// rows and styled lines read back at that moment).  The inner terminal is driven
// one generated item at a time.  After every item the harness
//   - writes the emitted bytes ("200 ..." lines, file -real),
//   - writes the model input (file -cases) for both model modes,
//   - feeds the emitted bytes to a real OUTER terminal and checks the end-to-end
//     predicate: outer cells = inner cells inside the region, prefill outside,
//     outer cursor / VFShowCursor as specified.
package main

import (
	"bufio"
	"flag"
	"fmt"
	"io"
	"os"
	"sort"
	"strings"
	"unicode/utf8"

	"github.com/ricochet1k/termemu"
)

// ---------- rng (SplitMix64) ----------
type rng struct{ s uint64 }

func (r *rng) next() uint64 {
	r.s += 0x9e3779b97f4a7c15
	z := r.s
	z = (z ^ (z >> 30)) * 0xbf58476d1ce4e5b9
	z = (z ^ (z >> 27)) * 0x94d049bb133111eb
	return z ^ (z >> 31)
}
func (r *rng) n(k int) int {
	if k <= 0 {
		return 0
	}
	return int(r.next() % uint64(k))
}
func (r *rng) chance(num, den int) bool { return r.n(den) < num }
func (r *rng) pick(xs ...string) string { return xs[r.n(len(xs))] }

// ---------- backend ----------
type feedBackend struct{ buf []byte }

func (b *feedBackend) Read(p []byte) (int, error) {
	if len(b.buf) == 0 {
		return 0, io.EOF
	}
	n := copy(p, b.buf)
	b.buf = b.buf[n:]
	return n, nil
}
func (b *feedBackend) Write(p []byte) (int, error) { return len(p), nil }
func (b *feedBackend) SetSize(w, h int) error      { return nil }

type recorder struct{ buf []byte }

func (r *recorder) Write(p []byte) (int, error) { r.buf = append(r.buf, p...); return len(p), nil }
func (r *recorder) take() []byte                { o := r.buf; r.buf = nil; return o }

// ---------- wrapping frontend ----------
type wrapFE struct {
	fe       *termemu.TTYFrontend
	vt       *termemu.VerifTerm
	cases    *bufio.Writer
	attached bool
	region   termemu.Region
	live     bool // record callbacks
	cutSeen  bool // a rendered range cut a wide glyph
	cutRows  map[int]bool // the rows on which that happened since the last Attach (the damage stays in its row)
	pieces   bool // grapheme mode: at some callback a row held text that segments into other cells (KF-C11-grapheme-pieces)
	mode     termemu.TextReadMode
}

func clamp(v, lo, hi int) int {
	if v < lo {
		v = lo
	}
	if v > hi {
		v = hi
	}
	return v
}

func activeScreen(s *termemu.VerifSnapshot) *termemu.VerifScreen {
	if s.OnAlt {
		return &s.Alt
	}
	return &s.Main
}

func writeRow(w *bufio.Writer, y int, row []termemu.VerifCell) {
	fmt.Fprintf(w, "145 %d", y)
	for _, c := range row {
		fmt.Fprintf(w, " %d %d %d %d %d", c.Width, c.FG, c.BG, c.UL, len(c.Text))
		for _, b := range c.Text {
			fmt.Fprintf(w, " %d", b)
		}
	}
	fmt.Fprintln(w)
}

// dump the rows y..y2 of the active screen and the styled lines of rect rc
func (f *wrapFE) dump(y, y2 int, rc termemu.Region, withSpans bool) {
	snap := f.vt.Snapshot()
	s := activeScreen(&snap)
	fmt.Fprintf(f.cases, "147 %d %d\n", s.W, s.H)
	y, y2 = clamp(y, 0, s.H), clamp(y2, 0, s.H)
	for yy := y; yy < y2 && yy < len(s.Rows); yy++ {
		writeRow(f.cases, yy, s.Rows[yy])
	}
	if f.mode == termemu.TextReadModeGrapheme && !f.pieces {
		if s.WidthMismatches > 0 || !s.RowsOK {
			f.pieces = true
		}
		for yy := 0; yy < len(s.Rows) && !f.pieces; yy++ {
			if !rowResegOK(s.Rows[yy], f.mode) {
				f.pieces = true
			}
		}
	}
	if !withSpans {
		return
	}
	rc.X, rc.X2 = clamp(rc.X, 0, s.W), clamp(rc.X2, 0, s.W)
	rc.Y, rc.Y2 = clamp(rc.Y, 0, s.H), clamp(rc.Y2, 0, s.H)
	if rc.X >= rc.X2 || rc.Y >= rc.Y2 {
		return
	}
	t := f.vt.Terminal()
	for yy := rc.Y; yy < rc.Y2; yy++ {
		// A rendered range that cuts a wide glyph is the known finding KF-C11-cut-glyph only where the cut is not the
		// terminal's own doing: at an edge of the attach region, or - span buffer - at the left edge of a region
		// announced for a write that started on the second half of a wide glyph (sanctioned, KF-second-half).  The
		// right edge of an announced region is always a glyph boundary (C10_primitives: the blanked tail is announced).
		ar := f.region
		ar.X, ar.X2 = clamp(ar.X, 0, s.W), clamp(ar.X2, 0, s.W)
		leftCut := at(s, rc.X, yy).Width == 0
		rightCut := rc.X2 < s.W && at(s, rc.X2, yy).Width == 0
		if (leftCut && (rc.X == ar.X || !s.Grid)) || (rightCut && rc.X2 == ar.X2) {
			f.cutSeen = true
			if f.cutRows == nil {
				f.cutRows = map[int]bool{}
			}
			f.cutRows[yy] = true
		}
		l := t.StyledLine(rc.X, rc.X2-rc.X, yy)
		fmt.Fprintf(f.cases, "146 %d", yy)
		for _, sp := range l.Spans {
			w := termemu.VerifStyleWords(sp.Style)
			txt := sp.Text
			if txt == "" {
				txt = strings.Repeat(string(sp.Rune), sp.Width)
			}
			fmt.Fprintf(f.cases, " %d %d %d %d", w[0], w[1], w[2], len(txt))
			for _, b := range []byte(txt) {
				fmt.Fprintf(f.cases, " %d", b)
			}
		}
		fmt.Fprintln(f.cases)
	}
}

func (f *wrapFE) Bell() {
	if f.live {
		fmt.Fprintln(f.cases, "144 1")
	}
	f.fe.Bell()
}
func (f *wrapFE) RegionChanged(r termemu.Region, c termemu.ChangeReason) {
	if f.live {
		if f.attached {
			f.dump(r.Y, r.Y2, r.Intersect(f.region), true)
		}
		fmt.Fprintf(f.cases, "141 %d %d %d %d\n", r.X, r.Y, r.X2, r.Y2)
	}
	f.fe.RegionChanged(r, c)
}
func (f *wrapFE) ScrollLines(y int) {
	if f.live {
		fmt.Fprintln(f.cases, "144 7")
	}
	f.fe.ScrollLines(y)
}
func (f *wrapFE) CursorMoved(x, y int) {
	if f.live {
		fmt.Fprintf(f.cases, "142 %d %d\n", x, y)
	}
	f.fe.CursorMoved(x, y)
}
func (f *wrapFE) StyleChanged(s termemu.Style) {
	if f.live {
		fmt.Fprintln(f.cases, "144 3")
	}
	f.fe.StyleChanged(s)
}
func (f *wrapFE) ViewFlagChanged(v termemu.ViewFlag, value bool) {
	if f.live {
		b := 0
		if value {
			b = 1
		}
		fmt.Fprintf(f.cases, "143 %d %d\n", int(v), b)
	}
	f.fe.ViewFlagChanged(v, value)
}
func (f *wrapFE) ViewIntChanged(v termemu.ViewInt, value int) {
	if f.live {
		fmt.Fprintln(f.cases, "144 5")
	}
	f.fe.ViewIntChanged(v, value)
}
func (f *wrapFE) ViewStringChanged(v termemu.ViewString, value string) {
	if f.live {
		fmt.Fprintln(f.cases, "144 6")
	}
	f.fe.ViewStringChanged(v, value)
}

// ---------- generator ----------
type op struct {
	kind int // 110 feed, 130 attach, 131 detach, 132 focus, 133 blur
	data []byte
	r    termemu.Region
}

var wideRunes = []string{"中", "世", "😀", "🐹"}
var narrowMB = []string{"é", "λ", "Ж", "€"}

func genText(r *rng, wide, comb bool) string {
	var sb strings.Builder
	n := 1 + r.n(6)
	if comb && r.chance(1, 5) {
		// a mark, joiner or selector at the start of an item: in grapheme mode it reaches the reader apart from its
		// base (an escape sequence or a read boundary lies between) and is merged into the character left of the cursor
		// (a joiner after a character that is not an emoji leaves a cell whose text segments into two clusters - the
		// known finding KF-C11-grapheme-pieces - so it is the rarest choice)
		sb.WriteString([]string{"\u0301", "\u0308", "\u0301", "\ufe0f", "\u0301\u0302", "\u0323", "\u0308\u0301", "\u0300", "\u0302", "\u200d\U0001f4bb"}[r.n(10)])
	}
	if comb && wide && r.chance(1, 5) {
		// a double-width character, an escape sequence, then a mark: the mark is merged into the wide character
		// (seeded change C11-m7: the merge announced one cell of the two)
		sb.WriteString(wideRunes[r.n(len(wideRunes))] + genSGR(r) + []string{"\u0301", "\u0308", "\u0323"}[r.n(3)])
	}
	for i := 0; i < n; i++ {
		switch {
		case wide && r.chance(1, 4):
			sb.WriteString(wideRunes[r.n(len(wideRunes))])
		case wide && r.chance(1, 10):
			sb.WriteString(narrowMB[r.n(len(narrowMB))])
		case comb && r.chance(1, 6):
			sb.WriteString("é")
		default:
			sb.WriteByte(byte('a' + r.n(26)))
		}
	}
	return sb.String()
}

func genSGR(r *rng) string {
	ps := []string{"0", "1", "2", "3", "4", "5", "7", "8", "9", "21", "22", "23", "24", "25", "27", "28", "29", "53", "55",
		"31", "32", "34", "37", "39", "41", "44", "47", "49", "91", "97", "102", "107",
		"38;5;208", "48;5;21", "38;2;10;200;30", "48;2;1;2;3", "38;5;3", ""}
	n := 1 + r.n(3)
	var parts []string
	for i := 0; i < n; i++ {
		parts = append(parts, ps[r.n(len(ps))])
	}
	return "\x1b[" + strings.Join(parts, ";") + "m"
}

func genItem(r *rng, w, h int, wide, comb bool) string {
	num := func(edge int) string {
		switch r.n(8) {
		case 0:
			return ""
		case 1:
			return fmt.Sprint(edge)
		case 2:
			return fmt.Sprint(edge + 1)
		default:
			return fmt.Sprint(1 + r.n(edge))
		}
	}
	switch r.n(40) {
	case 0, 1, 2, 3, 4, 5, 6, 7, 8, 9, 10, 11:
		return genText(r, wide, comb)
	case 12, 13, 14, 15:
		return genSGR(r)
	case 16, 17, 18:
		return fmt.Sprintf("\x1b[%s;%sH", num(h), num(w))
	case 19:
		return "\x1b[" + num(h) + r.pick("A", "B")
	case 20:
		return "\x1b[" + num(w) + r.pick("C", "D")
	case 21:
		return r.pick("\r", "\n", "\r\n", "\b", "\t")
	case 22:
		return r.pick("\x1bM", "\x1bD", "\n")
	case 23, 24:
		return "\x1b[" + r.pick("", "0", "1", "2") + "K"
	case 25:
		return "\x1b[" + r.pick("", "0", "1", "2") + "J"
	case 26:
		return "\x1b[" + num(w) + "X"
	case 27:
		return "\x1b[" + num(w) + "P"
	case 28:
		return "\x1b[" + num(h) + r.pick("L", "M")
	case 29:
		return "\x1b[" + num(h) + r.pick("S", "T")
	case 30, 31:
		return r.pick("\x1b[?25l", "\x1b[?25h")
	case 32:
		return r.pick("\x1b[?7l", "\x1b[?7h", "\x1b[?7h")
	case 33:
		a := 1 + r.n(h)
		b := a + r.n(h-a+1)
		return fmt.Sprintf("\x1b[%d;%dr", a, b)
	case 34:
		return r.pick("\x1b[?1049h", "\x1b[?1049l")
	case 35:
		return r.pick("\x1b[s", "\x1b[u")
	case 36:
		return r.pick("\a", "\x1b]0;title\a", "\x1b[?1h", "\x1b[?1000h")
	default:
		return genText(r, wide, comb)
	}
}

func genRegion(r *rng, w, h int) termemu.Region {
	switch r.n(6) {
	case 0:
		return termemu.Region{X: 0, Y: 0, X2: w, Y2: h}
	case 1: // may stick out of the screen
		x, y := r.n(w+1)-1, r.n(h+1)-1
		return termemu.Region{X: x, Y: y, X2: x + 1 + r.n(w+2), Y2: y + 1 + r.n(h+2)}
	default:
		x, y := r.n(w), r.n(h)
		return termemu.Region{X: x, Y: y, X2: x + 1 + r.n(w-x), Y2: y + 1 + r.n(h-y)}
	}
}

func genOps(r *rng, w, h, n int, wide, comb bool) []op {
	ops := []op{{kind: 130, r: genRegion(r, w, h)}}
	if r.chance(1, 3) { // some content before the first attach
		ops = append([]op{{kind: 110, data: []byte(genText(r, wide, comb))}}, ops...)
	}
	for i := 0; i < n; i++ {
		switch k := r.n(30); {
		case k == 0:
			ops = append(ops, op{kind: 130, r: genRegion(r, w, h)})
		case k == 1:
			ops = append(ops, op{kind: 131})
		case k == 2:
			ops = append(ops, op{kind: 132})
		case k == 3:
			ops = append(ops, op{kind: 133})
		default:
			ops = append(ops, op{kind: 110, data: []byte(genItem(r, w, h, wide, comb))})
		}
	}
	return ops
}

// ---------- one case ----------
type stats struct {
	steps, attachedSteps         int
	cellsOK, cellsBad            int
	outsideOK, outsideBad        int
	cursorOK, cursorBad          int
	cellsBadCut, cellsBadNoCut   int
	cellsBadPieces, outsidePieces int // grapheme mode: a row of the inner screen holds text that segments into other cells (KF-C11-grapheme-pieces)
	outsideBadCut, outsideNoCut  int
	cursorBadAttachShow          int
	cursorEmptyRegion            int
	cursorUnfocused              int
	detachedSteps, detachedQuiet int
	witnesses                    []string
	wcount                       map[string]int
}

// rowResegOK: every maximal run of equally styled cells of the row, read as one text, segments into exactly
// those cells (the executable counterpart of row_reseg_ok in Model/GTerm.v).
func rowResegOK(row []termemu.VerifCell, mode termemu.TextReadMode) bool {
	type cw struct{ n, w int }
	check := func(text []byte, want []cw) bool {
		var got []cw
		state := -1
		for len(text) > 0 {
			_, n, w, ns, ok := termemu.VerifStepCluster(text, state, mode)
			if !ok || n <= 0 {
				return false
			}
			if w < 1 {
				if len(got) == 0 {
					return false
				}
				got[len(got)-1].n += n
			} else {
				got = append(got, cw{n, w})
			}
			text = text[n:]
			state = ns
		}
		if len(got) != len(want) {
			return false
		}
		for i := range got {
			if got[i] != want[i] {
				return false
			}
		}
		return true
	}
	var text []byte
	var want []cw
	for i, c := range row {
		if i > 0 && (c.FG != row[i-1].FG || c.BG != row[i-1].BG || c.UL != row[i-1].UL) {
			if !check(text, want) {
				return false
			}
			text, want = nil, nil
		}
		text = append(text, c.Text...)
		if c.Width > 0 {
			want = append(want, cw{len(c.Text), c.Width})
		}
	}
	return check(text, want)
}

func (s *stats) witness(format string, a ...interface{}) {
	if s.wcount == nil {
		s.wcount = map[string]int{}
	}
	key := format
	if len(key) > 16 {
		key = key[:16]
	}
	s.wcount[key]++
	if s.wcount[key] <= 4 {
		s.witnesses = append(s.witnesses, fmt.Sprintf(format, a...))
	}
}

func feedAll(vt *termemu.VerifTerm, be *feedBackend, data []byte) (crashed string) {
	defer func() {
		if e := recover(); e != nil {
			crashed = fmt.Sprint(e)
		}
	}()
	be.buf = append(be.buf, data...)
	for i := 0; i < 100000; i++ {
		if err := vt.Step(); err != nil {
			return ""
		}
	}
	return "no EOF"
}

// at returns cell (x,y) of a snapshot; a malformed (short) row yields a sentinel
func at(s *termemu.VerifScreen, x, y int) termemu.VerifCell {
	if y < 0 || y >= len(s.Rows) || x < 0 || x >= len(s.Rows[y]) {
		return termemu.VerifCell{Width: -1}
	}
	return s.Rows[y][x]
}

func cellEq(a, b termemu.VerifCell) bool {
	return a.Width == b.Width && string(a.Text) == string(b.Text) && a.FG == b.FG && a.BG == b.BG && a.UL == b.UL
}

func prefill(ow, oh int) []byte {
	var sb strings.Builder
	sb.WriteString("\x1b[?7l\x1b[0;32m")
	for y := 0; y < oh; y++ {
		fmt.Fprintf(&sb, "\x1b[%d;1H%s", y+1, strings.Repeat(".", ow))
	}
	sb.WriteString("\x1b[0m\x1b[?7h")
	fmt.Fprintf(&sb, "\x1b[%d;%dH", oh, ow)
	return []byte(sb.String())
}

func runCase(id string, seed uint64, grid bool, mode int, nops int, wide, comb bool, cases, real *bufio.Writer, st *stats) {
	r := &rng{s: seed}
	w, h := 3+r.n(14), 2+r.n(5)
	ow, oh := w+r.n(4), h+r.n(3)
	ops := genOps(r, w, h, nops, wide, comb)

	tm := termemu.TextReadModeRune
	if mode == 1 {
		tm = termemu.TextReadModeGrapheme
	}
	rec := &recorder{}
	fe := termemu.NewTTYFrontend(nil, rec)
	wf := &wrapFE{fe: fe, cases: cases, mode: tm}
	be := &feedBackend{}
	vt := termemu.VerifNew(wf, be, tm, grid, false)
	wf.vt = vt
	fe.SetTerminal(vt.Terminal())
	vt.Terminal().Resize(w, h)
	rec.take()

	obe := &feedBackend{}
	outer := termemu.VerifNew(&termemu.EmptyFrontend{}, obe, tm, grid, false)
	outer.Terminal().Resize(ow, oh)
	feedAll(outer, obe, prefill(ow, oh))
	fillCell := outer.Snapshot().Main.Rows[0][0]

	// width table for the model
	widths := map[rune]int{}
	for _, o := range ops {
		for _, ru := range string(o.data) {
			if ru >= 128 && ru != utf8.RuneError {
				widths[ru] = termemu.VerifRuneWidth(ru)
			}
		}
	}
	var keys []int
	for k := range widths {
		keys = append(keys, int(k))
	}
	sort.Ints(keys)
	fmt.Fprintf(cases, "# %s\n100 %d %d %d %d\n101", id, mode, b2i(grid), w, h)
	for _, k := range keys {
		fmt.Fprintf(cases, " %d %d", k, widths[rune(k)])
	}
	fmt.Fprintln(cases)
	fmt.Fprintf(real, "# %s\n", id)

	wf.live = true
	innerShow := true  // what the application asked for (DECTCEM), initially the frontend's default
	attachShow := true // the frontend's view: Attach forces it to true
	focused := true
	everAttached := false
	cutSince := false // a glyph was cut by the region edge at some step since the last Attach
	piecesSince := false // grapheme mode: some row of the inner screen held text that segments into other cells
	for i, o := range ops {
		st.steps++
		switch o.kind {
		case 110:
			fmt.Fprint(cases, "110")
			for _, b := range o.data {
				fmt.Fprintf(cases, " %d", b)
			}
			fmt.Fprintln(cases)
			if msg := feedAll(vt, be, o.data); msg != "" {
				fmt.Fprintf(os.Stderr, "%s op %d: inner terminal: %s\n", id, i, msg)
			}
			if strings.Contains(string(o.data), "\x1b[?25l") {
				innerShow, attachShow = false, false
			}
			if strings.Contains(string(o.data), "\x1b[?25h") {
				innerShow, attachShow = true, true
			}
		case 130:
			// the outer terminal starts from the prefill again
			feedAll(outer, obe, prefill(ow, oh))
			wf.cutSeen = false
			wf.cutRows = nil
			wf.pieces = false
			piecesSince = false
			vt.T.Lock()
			wf.dump(0, h, o.r, true)
			vt.T.Unlock()
			fmt.Fprintf(cases, "130 %d %d %d %d\n", o.r.X, o.r.Y, o.r.X2, o.r.Y2)
			wf.attached, wf.region = true, o.r
			fe.Attach(o.r)
			attachShow = true
			everAttached = true
			cutSince = false
		case 131:
			fmt.Fprintln(cases, "131")
			wf.attached = false
			fe.Detach()
		case 132:
			fmt.Fprintln(cases, "132")
			fe.Focus()
			focused = true
		case 133:
			fmt.Fprintln(cases, "133")
			fe.Blur()
			focused = false
		}
		fmt.Fprintln(cases, "150")
		out := rec.take()
		fmt.Fprint(real, "200")
		for _, b := range out {
			fmt.Fprintf(real, " %d", b)
		}
		fmt.Fprintln(real)

		// ---- end-to-end predicate on the implementation alone ----
		if msg := feedAll(outer, obe, out); msg != "" {
			fmt.Fprintf(os.Stderr, "%s op %d: outer terminal: %s\n", id, i, msg)
		}
		if !wf.attached {
			if everAttached && o.kind != 131 && o.kind != 133 {
				st.detachedSteps++
				if len(out) == 0 {
					st.detachedQuiet++
				} else {
					st.witness("%s op %d: detached frontend wrote %q", id, i, out)
				}
			}
			continue
		}
		st.attachedSteps++
		isnap := vt.Snapshot()
		osnap := outer.Snapshot()
		in, ou := activeScreen(&isnap), activeScreen(&osnap)
		rg := wf.region
		rg.X, rg.X2 = clamp(rg.X, 0, w), clamp(rg.X2, 0, w)
		rg.Y, rg.Y2 = clamp(rg.Y, 0, h), clamp(rg.Y2, 0, h)
		cut := false
		badIn, badOut := 0, 0
		badRows := map[int]bool{} // rows holding a cell that differs
		firstIn, firstOut := "", ""
		for y := 0; y < oh; y++ {
			for x := 0; x < ow; x++ {
				inside := x >= rg.X && x < rg.X2 && y >= rg.Y && y < rg.Y2
				if inside {
					if !cellEq(at(ou, x, y), at(in, x, y)) {
						badIn++
						badRows[y] = true
						if firstIn == "" {
							firstIn = fmt.Sprintf("(%d,%d) outer %q/%d inner %q/%d", x, y, at(ou, x, y).Text, at(ou, x, y).Width, at(in, x, y).Text, at(in, x, y).Width)
						}
					}
				} else if !cellEq(at(ou, x, y), fillCell) {
					badOut++
					badRows[y] = true
					if firstOut == "" {
						firstOut = fmt.Sprintf("(%d,%d) outer %q/%d", x, y, at(ou, x, y).Text, at(ou, x, y).Width)
					}
				}
			}
		}
		for y := rg.Y; y < rg.Y2; y++ {
			if rg.X < rg.X2 && (at(in, rg.X, y).Width == 0 || (rg.X2 < w && at(in, rg.X2, y).Width == 0)) {
				if wf.cutRows == nil {
					wf.cutRows = map[int]bool{}
				}
				wf.cutRows[y] = true
			}
		}
		if id == traceID {
			fmt.Printf("T %s op %d kind %d data %q out %q\n", id, i, o.kind, o.data, out)
			for y := 0; y < oh; y++ {
				var a, b strings.Builder
				for x := 0; x < ow; x++ {
					if at(ou, x, y).Width == 0 {
						a.WriteByte('_')
					} else {
						a.Write(at(ou, x, y).Text)
					}
					if y < h && x < w {
						if at(in, x, y).Width == 0 {
							b.WriteByte('_')
						} else {
							b.Write(at(in, x, y).Text)
						}
					}
				}
				fmt.Printf("T   outer |%s|   inner |%s|\n", a.String(), b.String())
			}
		}
		// the differences are the known cut-glyph finding only if every row that differs had a glyph cut by a range or
		// region edge since the last Attach (the outer terminal is never scrolled: the damage stays in its row)
		cut = len(badRows) > 0
		for y := range badRows {
			if !wf.cutRows[y] {
				cut = false
			}
		}
		_ = cutSince
		piecesSince = piecesSince || wf.pieces
		if mode == 1 && !piecesSince && (in.WidthMismatches > 0 || !in.RowsOK) {
			// span buffer: the cells of the snapshot are the stored text segmented again; a run that does not fill
			// the width it claims is the same situation seen from the other side
			piecesSince = true
		}
		if mode == 1 && !piecesSince {
			for y := 0; y < len(in.Rows); y++ {
				if !rowResegOK(in.Rows[y], tm) {
					piecesSince = true
					break
				}
			}
		}
		if badIn == 0 {
			st.cellsOK++
		} else {
			st.cellsBad++
			if cut {
				st.cellsBadCut++
			} else if piecesSince {
				st.cellsBadPieces++
			} else {
				st.cellsBadNoCut++
				st.witness("%s op %d (grid=%v): inside region %v: %s", id, i, grid, wf.region, firstIn)
			}
		}
		if badOut == 0 {
			st.outsideOK++
		} else {
			st.outsideBad++
			if cut {
				st.outsideBadCut++
			} else if piecesSince {
				st.outsidePieces++
			} else {
				st.outsideNoCut++
				st.witness("%s op %d (grid=%v): outside region %v: %s", id, i, grid, wf.region, firstOut)
			}
		}
		inReg := in.CX >= wf.region.X && in.CX < wf.region.X2 && in.CY >= wf.region.Y && in.CY < wf.region.Y2
		wantVisible := focused && innerShow && inReg
		gotVisible := osnap.Flags[termemu.VFShowCursor]
		curOK := gotVisible == wantVisible && (!wantVisible || (ou.CX == in.CX && ou.CY == in.CY))
		if !focused {
			// Blur hands the cursor back (show); a later cursor callback hides it again:
			// while unfocused the visibility depends on which came last, no claim is checked
			st.cursorUnfocused++
			continue
		}
		// known finding KF-C11-empty-attach: Attach to a region that is empty after clamping to the
		// screen returns before the cursor is hidden; the outer cursor keeps its state until the next cursor event
		emptyRegion := wf.region.X2 <= 0 || wf.region.Y2 <= 0 || wf.region.X >= in.W || wf.region.Y >= in.H ||
			wf.region.X >= wf.region.X2 || wf.region.Y >= wf.region.Y2
		if curOK {
			st.cursorOK++
		} else if emptyRegion {
			st.cursorEmptyRegion++
		} else {
			st.cursorBad++
			if innerShow != attachShow && gotVisible == (focused && attachShow && inReg) {
				st.cursorBadAttachShow++
			} else {
				st.witness("%s op %d: cursor: outer visible=%v at (%d,%d); inner show=%v focused=%v at (%d,%d) region %v", id, i, gotVisible, ou.CX, ou.CY, innerShow, focused, in.CX, in.CY, wf.region)
			}
		}
	}
	fmt.Fprintln(cases, "199")
}

var traceID string

func b2i(b bool) int {
	if b {
		return 1
	}
	return 0
}

func main() {
	seed := flag.Uint64("seed", 1, "seed")
	n := flag.Int("n", 100, "cases per buffer kind")
	nops := flag.Int("ops", 40, "operations per case")
	kinds := flag.String("kinds", "01", "0 span, 1 grid")
	mode := flag.Int("mode", 0, "0 rune, 1 grapheme")
	wide := flag.Bool("wide", false, "wide and multi-byte glyphs")
	comb := flag.Bool("comb", false, "combining marks")
	casesPath := flag.String("cases", "cases.txt", "model input")
	realPath := flag.String("real", "real.txt", "bytes the real frontend wrote")
	flag.StringVar(&traceID, "trace", "", "case id to trace")
	flag.Parse()

	cf, err := os.Create(*casesPath)
	if err != nil {
		panic(err)
	}
	rf, err := os.Create(*realPath)
	if err != nil {
		panic(err)
	}
	cw, rw := bufio.NewWriterSize(cf, 1<<20), bufio.NewWriterSize(rf, 1<<20)
	for _, k := range *kinds {
		st := &stats{}
		for i := 0; i < *n; i++ {
			id := fmt.Sprintf("tty-k%c-m%d-s%d-%d", k, *mode, *seed, i)
			runCase(id, *seed*1000003+uint64(i)*7919+uint64(k), k == '1', *mode, *nops, *wide, *comb, cw, rw, st)
		}
		kind := map[rune]string{'0': "span", '1': "grid"}[k]
		fmt.Printf("E2E %s mode=%d wide=%v comb=%v: steps=%d attached=%d\n", kind, *mode, *wide, *comb, st.steps, st.attachedSteps)
		fmt.Printf("  inside-region cells equal: ok=%d bad=%d (bad with a glyph cut by the region edge=%d, other=%d)\n", st.cellsOK, st.cellsBad, st.cellsBadCut, st.cellsBadNoCut)
		fmt.Printf("  outside-region cells untouched: ok=%d bad=%d (cut=%d, other=%d)\n", st.outsideOK, st.outsideBad, st.outsideBadCut, st.outsideNoCut)
		fmt.Printf("  grapheme pieces (a row whose text segments into other cells): inside=%d outside=%d\n", st.cellsBadPieces, st.outsidePieces)
		fmt.Printf("  outer cursor as specified: ok=%d bad=%d (bad explained by Attach forcing showCur=%d; unfocused steps not checked=%d; attach region empty after clamping=%d)\n", st.cursorOK, st.cursorBad, st.cursorBadAttachShow, st.cursorUnfocused, st.cursorEmptyRegion)
		fmt.Printf("  detached steps=%d silent=%d\n", st.detachedSteps, st.detachedQuiet)
		for _, wmsg := range st.witnesses {
			fmt.Println("  W", wmsg)
		}
	}
	cw.Flush()
	rw.Flush()
	cf.Close()
	rf.Close()
}
