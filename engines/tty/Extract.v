From Coq Require Import ExtrOcamlBasic.
From Termemu Require Import TtyCase.
Extraction "model.ml" run_tty.
