(* Hand-written driver for the extracted C11 TTY-mirror model: reads lines of
   integers, hands them case by case (a case starts at a line "100 ...") to the
   extracted [run_tty], prefixed by the option line "99 robust rp" built from
   argv, and prints the answer lines.  No model logic lives here. *)
open Model

let rec pos_of_int n =
  if n = 1 then XH
  else if n land 1 = 0 then XO (pos_of_int (n lsr 1))
  else XI (pos_of_int (n lsr 1))

let z_of_int n =
  if n = 0 then Z0 else if n > 0 then Zpos (pos_of_int n) else Zneg (pos_of_int (-n))

let rec int_of_pos = function
  | XH -> 1
  | XO p -> 2 * int_of_pos p
  | XI p -> 2 * int_of_pos p + 1

let int_of_z = function
  | Z0 -> 0
  | Zpos p -> int_of_pos p
  | Zneg p -> - (int_of_pos p)

let parse_line s =
  String.split_on_char ' ' s
  |> List.filter (fun x -> x <> "")
  |> List.map (fun x -> z_of_int (int_of_string x))

let print_rec buf r =
  let first = ref true in
  List.iter (fun z ->
    if not !first then Buffer.add_char buf ' ';
    first := false;
    Buffer.add_string buf (string_of_int (int_of_z z))) r;
  Buffer.add_char buf '\n'

let () =
  let robust = if Array.length Sys.argv > 1 then int_of_string Sys.argv.(1) else 0 in
  let rp = if Array.length Sys.argv > 2 then int_of_string Sys.argv.(2) else 1 in
  let opt = List.map z_of_int [99; robust; rp] in
  let buf = Buffer.create 65536 in
  let batch = ref [] in
  let name = ref "" in
  let flush_batch () =
    if !batch <> [] then begin
      if !name <> "" then (Buffer.add_string buf !name; Buffer.add_char buf '\n');
      List.iter (print_rec buf) (run_tty (opt :: List.rev !batch));
      print_string (Buffer.contents buf);
      Buffer.clear buf;
      batch := []
    end in
  let pending_name = ref "" in
  (try
    while true do
      let line = input_line stdin in
      if String.trim line <> "" then begin
        if line.[0] = '#' then pending_name := line
        else begin
          if String.length line >= 4 && String.sub line 0 4 = "100 " then begin
            flush_batch ();
            name := !pending_name
          end;
          batch := parse_line line :: !batch
        end
      end
    done
  with End_of_file -> ());
  flush_batch ()
