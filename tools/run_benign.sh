#!/bin/bash
# tools/run_benign.sh <benign-id> <check> [<check> ...]
# Applies a behaviour-preserving change (benign/<id>/patch.diff, written by a sub-agent that saw no part of /verif) to a
# scratch worktree of /repo HEAD and runs the named checks against it: every check must stay silent (rc=0).
V=$(cd "$(dirname "$0")/.." && pwd)
id=$1; shift
WT=/tmp/benrun-wt-$$
git -C /repo worktree remove --force $WT 2>/dev/null
git -C /repo worktree add --detach $WT HEAD >/dev/null 2>&1 || exit 2
( cd $WT && git apply $V/benign/$id/patch.diff ) || { echo "$id: patch does not apply"; git -C /repo worktree remove --force $WT; exit 2; }
for c in "$@"; do
  out=$(cd $V && VERIF_REPO=$WT timeout 1800 bin/check $c quick 2>&1); rc=$?
  first=$(echo "$out" | grep -A1 '^VIOLATION' | head -2 | tr '\n' ' ' | cut -c1-300)
  echo "$id check=$c rc=$rc $first"
done
git -C /repo worktree remove --force $WT
