#!/bin/bash
# runs the behaviour-preserving changes that touch the screen buffers against C20 and C02 (span terminal engine: raw rows)
V=$(cd "$(dirname "$0")/.." && pwd)
cd $V
[ -d build ] || bin/setup >/dev/null 2>&1 || { echo "setup failed"; exit 2; }
for d in benign/k2b* benign/k3b*; do tools/run_benign.sh $(basename $d) C20 C02; done
echo group-done
