#!/usr/bin/env python3
"""Prints the prompt given to a fresh sub-agent that is asked for a property-breaking change.
The agent gets only the property text, nothing from /verif."""
import json, sys
pid = sys.argv[1]
rnd = int(sys.argv[2]) if len(sys.argv) > 2 else 1      # round 1: m1, m2 in /tmp/mut-<id>; round n: m<2n-1>, m<2n> in /tmp/mut<n>-<id>
M1, M2 = 2 * rnd - 1, 2 * rnd
DIR = "/tmp/mut-" + pid if rnd == 1 else "/tmp/mut%d-%s" % (rnd, pid)
for l in open('/verif/properties.jsonl'):
    p = json.loads(l)
    if p['id'] == pid:
        break
import os, glob
prev = []
for d in sorted(glob.glob('/verif/seeded/%s-m*' % pid)):
    try:
        prev.append("  - " + json.load(open(d + '/meta.json'))['summary'][:220])
    except Exception:
        pass
AVOID = ""
if prev and rnd > 1:
    AVOID = "\n\nOther engineers have already delivered the following changes for this property; yours must differ from all of them in location and nature (do not re-use the same function and trick):\n" + "\n".join(prev) + "\n"
print(f"""You are a software engineer working on the Go library github.com/ricochet1k/termemu (a headless terminal emulator: VT/xterm escape-sequence parser driving two screen-buffer implementations, grid and span, plus key and mouse encoders). Its source is the git repository /repo. You must NOT modify /repo itself and you must NOT read anything under /verif. Work only in your own scratch git worktree:

    git -C /repo worktree add --detach {DIR}/wt HEAD
    cd {DIR}/wt
    export GOFLAGS=-mod=mod GOPROXY=off GOSUMDB=off GOTOOLCHAIN=local     # needed in every shell call; there is no network

The existing test suite is run with:  go build ./... && go test -vet=off -count=1 ./...   (about 2 seconds).

Here is a behavioural property the library is supposed to satisfy:

PROPERTY {p['id']}: {p['title']}
{p['statement']}
It is meant to hold for: {p['quantifier']['text']}
(Relevant source files: {', '.join(p['anchors']['files'])}.)

YOUR TASK: produce TWO different, independent, realistic code changes ("mutants") to the library, each of which BREAKS this property while the library STILL COMPILES and the EXISTING TEST SUITE STILL PASSES unedited. Think of the kind of regression a plausible refactoring, optimisation, off-by-one, wrong constant, dropped special case, reordered statements, or mis-merged patch would introduce. Each change should need something SPECIFIC to manifest — a particular multi-step sequence of operations, an unusual input or parameter value, a boundary size, a particular interleaving or read segmentation, a fault at a particular point, or two cooperating sites that each look fine alone — NOT something ordinary use would expose at once (a change that breaks typing 'hello' is useless). Keep each change small (a few lines), in non-test library code only (never touch *_test.go, verif_hooks.go, go.mod), and make the two mutants different in nature and location. Do not add new exported API. The change must violate the property as stated above, not merely change unspecified behaviour.{AVOID}

For each mutant i in {M1}, {M2} deliver a directory {DIR}/out/m<i>/ containing:
  - patch.diff : `git diff` of the worktree against HEAD for this mutant only (apply-able with `git apply` to a clean checkout of /repo HEAD)
  - demo_test.go : a Go test file (package termemu, so it can use unexported helpers such as MakeTerminalWithMock / testFeedTerminalInputFromBackend from test_helpers_test.go, or the public API) whose test FAILS with the change applied and PASSES on the unchanged code. The test must demonstrate the property violation in the property's own terms (observable behaviour: screen text, cursor, replies, callbacks, bytes written, panics, races...). Name the test TestMutant_{pid}_m<i>.
  - meta.json : {{"property": "{pid}", "mutant": "m<i>", "summary": "<one sentence: what was changed>", "needs": "<what specific input/sequence/size/interleaving it needs in order to manifest>", "violates": "<which clause of the property is violated and how>", "commands": ["<the commands you ran to confirm: suite passes with the change, demo fails with the change, demo passes without it>"]}}
Confirm all three facts yourself for each mutant before delivering: (a) with the change, `go build ./... && go test -vet=off -count=1 ./...` passes (without your demo test file present); (b) with the change and the demo test file copied into the worktree root, `go test -vet=off -count=1 -run TestMutant_{pid}_m<i> .` FAILS; (c) on a clean checkout plus the demo test file it PASSES. Reset the worktree between the two mutants (`git checkout -- . && git clean -fd`). NEVER use `git stash` (the stash is shared between all worktrees of /repo and other engineers are working in theirs): to test without your change use `git diff > {DIR}/p.diff; git apply -R {DIR}/p.diff` and re-apply with `git apply`. When finished remove the worktree: `git -C /repo worktree remove --force {DIR}/wt`. Your final message: a short description of both mutants.""")
