#!/bin/bash
# runs the behaviour-preserving changes of one group (k1..k4) against the checks whose machinery reads the files they touch
V=$(cd "$(dirname "$0")/.." && pwd)
cd $V
[ -d build ] || bin/setup >/dev/null 2>&1 || { echo "setup failed"; exit 2; }
g=$1
case $g in
 k1) checks="C15 C09 C04 C14 C17 C19 C01";;
 k2) checks="C15 C02 C03 C05 C06 C20 C10";;
 k3) checks="C15 C03 C07 C08 C11 C16 C20";;
 k4) checks="C15 C12 C13 C16 C11";;
esac
for d in benign/${g}b*; do tools/run_benign.sh $(basename $d) $checks; done
echo group-done
