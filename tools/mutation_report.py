#!/usr/bin/env python3
"""Writes seeded/RESULTS.md from build/mutation-results.txt (latest run of every seeded change), the first-run
results kept in seeded/history/, and the seeded metadata."""
import json, os, re
V = os.path.dirname(os.path.dirname(os.path.abspath(__file__)))


def load(path):
    res = {}
    if not os.path.exists(path):
        return res
    for line in open(path):
        m = re.match(r"(C\d+-m\d+) check=(C\d+) rc=(\d+) ?(.*)", line.strip())
        if m:
            res.setdefault(m.group(1), {})[m.group(2)] = (int(m.group(3)), m.group(4))
        m = re.match(r"(C\d+-m\d+): patch does not apply", line.strip())
        if m:
            res.setdefault(m.group(1), {})["_noapply"] = (2, "")
    return res


latest = load(os.path.join(V, "seeded", "latest-results.txt"))
first = {}
for f in sorted(os.listdir(os.path.join(V, "seeded", "history"))):
    for k, v in load(os.path.join(V, "seeded", "history", f)).items():
        first.setdefault(k, v)


def status(r, prop):
    if r is None:
        return "not run"
    if "_noapply" in r and prop not in r:
        return "patch did not apply"
    own = r.get(prop)
    if own is None:
        return "not run"
    return "caught" if own[0] == 1 else "MISSED"


rows = []
tot = {"first_caught": 0, "first_missed": 0, "now_caught": 0, "now_missed": 0, "n": 0}
for d in sorted(os.listdir(os.path.join(V, "seeded"))):
    mp = os.path.join(V, "seeded", d, "meta.json")
    if not os.path.exists(mp):
        continue
    m = json.load(open(mp))
    prop = m["property"]
    f, l = status(first.get(d), prop), status(latest.get(d), prop)
    tot["n"] += 1
    tot["first_caught"] += f == "caught"
    tot["first_missed"] += f == "MISSED"
    tot["now_caught"] += l == "caught"
    tot["now_missed"] += l == "MISSED"
    own = (latest.get(d) or {}).get(prop)
    how = "" if own is None else re.sub(r"replay=\S+", "", own[1])[:120].replace("|", "/")
    rows.append("| %s | %s | %s | %s | %s | %s |" % (d, m.get("summary", "")[:130].replace("|", "/"), m.get("needs", "")[:110].replace("|", "/"), f, l, how))
out = ["# Seeded changes and the checks that catch them", "",
       "Each change was written by a sub-agent that saw only the property text, confirmed here in a scratch worktree",
       "(suite passes with the change, demonstration fails with it, passes without), and run through `bin/check <id> quick`",
       "of its own property with `tools/run_mutant.sh` (scratch worktree, `VERIF_REPO`). `caught` = the check exited 1 with a",
       "VIOLATION line. *first run* = the result when the change was first tried, before the machinery was strengthened",
       "because of it (kept in `seeded/history/`); *now* = the latest run.", "",
       "**%d changes; first run: %d caught, %d missed; now: %d caught, %d missed.**" % (tot["n"], tot["first_caught"], tot["first_missed"], tot["now_caught"], tot["now_missed"]), "",
       "| change | what it does | needs | first run | now | how it is reported now |", "|---|---|---|---|---|---|"] + rows
open(os.path.join(V, "seeded", "RESULTS.md"), "w").write("\n".join(out) + "\n")
print("\n".join(out[8:9]))
