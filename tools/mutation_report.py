#!/usr/bin/env python3
"""Writes seeded/RESULTS.md from build/mutation-results.txt and the seeded metadata."""
import json, os, re
V = os.path.dirname(os.path.dirname(os.path.abspath(__file__)))
res = {}
for line in open(os.path.join(V, "build", "mutation-results.txt")):
    m = re.match(r"(C\d+-m\d+) check=(C\d+) rc=(\d+) ?(.*)", line.strip())
    if m:
        res.setdefault(m.group(1), {})[m.group(2)] = (int(m.group(3)), m.group(4))
out = ["# Seeded changes and the checks that catch them", "",
       "Each change was written by a sub-agent that saw only the property text, confirmed here in a scratch worktree",
       "(suite passes with the change, demonstration fails with it, passes without), and run through `bin/check <id> quick`",
       "with `tools/run_mutant.sh` (scratch worktree, `VERIF_REPO`). `caught` = the check exited 1 with a VIOLATION line.", "",
       "| change | what it does | needs | own check | how it was reported | other checks run |", "|---|---|---|---|---|---|"]
for d in sorted(os.listdir(os.path.join(V, "seeded"))):
    mp = os.path.join(V, "seeded", d, "meta.json")
    if not os.path.exists(mp):
        continue
    m = json.load(open(mp))
    prop = m["property"]
    r = res.get(d, {})
    own = r.get(prop)
    status = "not run" if own is None else ("caught" if own[0] == 1 else "MISSED")
    how = "" if own is None else re.sub(r"replay=\S+", "", own[1])[:110].replace("|", "/")
    others = ", ".join("%s:%s" % (k, "caught" if v[0] == 1 else "quiet") for k, v in sorted(r.items()) if k != prop)
    out.append("| %s | %s | %s | %s | %s | %s |" % (d, m.get("summary", "")[:120].replace("|", "/"), m.get("needs", "")[:110].replace("|", "/"), status, how, others))
open(os.path.join(V, "seeded", "RESULTS.md"), "w").write("\n".join(out) + "\n")
print("\n".join(out[-45:]))
