#!/bin/bash
# tools/campaign_ids.sh <seeded-id> ... : runs the named seeded changes against the check of their own property from this
# copy of /verif (meant for `vp run`); one line per change on stdout.
V=$(cd "$(dirname "$0")/.." && pwd)
cd $V
[ -d build ] || bin/setup >/dev/null 2>&1 || { echo "setup failed"; exit 2; }
for id in "$@"; do tools/run_mutant.sh $id ${id%%-*}; done
echo shard-done
