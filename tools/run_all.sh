#!/bin/bash
# runs every registered check at the given tier (default quick) on /repo; one summary line each in build/run_all.log
cd /verif
tier=${1:-quick}
: > build/run_all.log
for p in C01 C02 C03 C04 C05 C06 C07 C08 C09 C10 C11 C12 C13 C14 C15 C16 C17 C18 C19 C20; do
  s=$(date +%s)
  out=$(bin/check $p $tier 2>&1); rc=$?
  echo "$p rc=$rc $(( $(date +%s) - s ))s $(echo "$out" | grep -c '^VIOLATION') violations; $(echo "$out" | grep -E "^$p $tier" | tail -1)" >> build/run_all.log
  echo "$out" | grep -A1 '^VIOLATION\|^NOTE' >> build/run_all.log
done
echo done >> build/run_all.log
