#!/bin/bash
# Confirms each delivered mutant in a scratch worktree: (a) suite passes with the change,
# (b) demo fails with the change, (c) demo passes without it.  Confirmed mutants are copied to /verif/seeded/<id>/.
export GOFLAGS=-mod=mod GOPROXY=off GOSUMDB=off GOTOOLCHAIN=local
WT=/tmp/verify-mut-wt
git -C /repo worktree remove --force $WT 2>/dev/null
git -C /repo worktree add --detach $WT HEAD >/dev/null 2>&1
for d in "$@"; do
  id=$(python3 -c "import json;m=json.load(open('$d/meta.json'));print(m['property']+'-'+m['mutant'])")
  [ -d /verif/seeded/$id ] && { echo "$id already seeded"; continue; }
  cd $WT && git checkout -q -- . && git clean -qfd
  if ! git apply --check $d/patch.diff 2>/dev/null; then echo "$id PATCH-DOES-NOT-APPLY"; continue; fi
  git apply $d/patch.diff
  a=$( (go build ./... && go test -vet=off -count=1 ./... ) >/tmp/vm-a.log 2>&1 && echo pass || echo fail)
  cp $d/demo_test.go $WT/zz_demo_test.go
  t=$(grep -o 'func TestMutant_[A-Za-z0-9_]*' $d/demo_test.go | head -1 | sed 's/func //')
  b=$( timeout 300 go test -vet=off -count=1 -run "^$t\$" . >/tmp/vm-b.log 2>&1 && echo pass || echo fail)
  git apply -R $d/patch.diff
  c=$( timeout 300 go test -vet=off -count=1 -run "^$t\$" . >/tmp/vm-c.log 2>&1 && echo pass || echo fail)
  rm -f $WT/zz_demo_test.go
  echo "$id suite_with_change=$a demo_with_change=$b demo_without=$c"
  if [ "$a" = pass ] && [ "$b" = fail ] && [ "$c" = pass ]; then
    mkdir -p /verif/seeded/$id && cp $d/patch.diff $d/demo_test.go /verif/seeded/$id/
    python3 - "$d" "$id" <<'PY'
import json,sys
d,id=sys.argv[1],sys.argv[2]
m=json.load(open(d+'/meta.json'))
m['confirmed']={'suite_passes_with_change':True,'demo_fails_with_change':True,'demo_passes_without_change':True,
 'how':'tools/verify_mutants.sh in a scratch worktree of /repo HEAD: go build ./... && go test -vet=off -count=1 ./... ; go test -run <demo> with and without the patch'}
json.dump(m,open('/verif/seeded/%s/meta.json'%id,'w'),indent=1)
PY
  fi
done
cd / && git -C /repo worktree remove --force $WT
