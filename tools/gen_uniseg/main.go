// gen_uniseg regenerates the Coq tables the width/grapheme model (Model/Uniseg.v) is defined from.
//
//	go run . -repo /repo -out <dir>
//
// It locates the source of github.com/rivo/uniseg that <repo>'s go.mod selects (module cache, offline),
// reads properties.go, graphemeproperties.go, eastasianwidth.go, emojipresentation.go and graphemerules.go with
// go/parser, and writes <dir>/Gen_Uniseg.v: the property constants, the three code-point tables, the grapheme
// transition table (the `switch` of grTransitions) and the state constants.  The tables unicode.Mn and
// unicode.Me of the Go toolchain's standard library (used by termemu's isCombiningOnly) are dumped from the
// linked package.  Every syntactic shape it does not understand is an error (exit 1); nothing is skipped.
package main

import (
	"flag"
	"fmt"
	"go/ast"
	"go/parser"
	"go/token"
	"os"
	"os/exec"
	"path/filepath"
	"sort"
	"strconv"
	"strings"
	"unicode"
)

var fset = token.NewFileSet()

func die(pos token.Pos, format string, a ...interface{}) {
	where := ""
	if pos.IsValid() {
		where = fset.Position(pos).String() + ": "
	}
	fmt.Fprintf(os.Stderr, "gen_uniseg: unsupported: %s%s\n", where, fmt.Sprintf(format, a...))
	os.Exit(1)
}

var consts = map[string]int64{}
var constOrder []string

func evalConst(e ast.Expr, iota int64) int64 {
	switch x := e.(type) {
	case *ast.BasicLit:
		if x.Kind != token.INT {
			die(e.Pos(), "non-integer literal")
		}
		v, err := strconv.ParseInt(x.Value, 0, 64)
		if err != nil {
			die(e.Pos(), "literal %s", x.Value)
		}
		return v
	case *ast.Ident:
		if x.Name == "iota" {
			return iota
		}
		v, ok := consts[x.Name]
		if !ok {
			die(e.Pos(), "unknown constant %s", x.Name)
		}
		return v
	case *ast.ParenExpr:
		return evalConst(x.X, iota)
	case *ast.BinaryExpr:
		a, b := evalConst(x.X, iota), evalConst(x.Y, iota)
		switch x.Op {
		case token.ADD:
			return a + b
		case token.SUB:
			return a - b
		case token.SHL:
			return a << uint(b)
		case token.OR:
			return a | b
		case token.MUL:
			return a * b
		}
	}
	die(e.Pos(), "constant expression")
	return 0
}

// constants of a file: const blocks with iota and implicit repetition
func readConsts(f *ast.File) {
	for _, d := range f.Decls {
		g, ok := d.(*ast.GenDecl)
		if !ok || g.Tok != token.CONST {
			continue
		}
		var last ast.Expr
		for i, s := range g.Specs {
			vs := s.(*ast.ValueSpec)
			if len(vs.Names) != 1 {
				die(vs.Pos(), "multi-name const spec")
			}
			if len(vs.Values) == 1 {
				last = vs.Values[0]
			} else if len(vs.Values) != 0 {
				die(vs.Pos(), "multi-value const spec")
			}
			if last == nil {
				die(vs.Pos(), "const without value")
			}
			if b, ok := last.(*ast.BasicLit); ok && b.Kind != token.INT {
				continue // not an integer constant (none expected in these files)
			}
			name := vs.Names[0].Name
			consts[name] = evalConst(last, int64(i))
			constOrder = append(constOrder, name)
		}
	}
}

func parse(dir, name string) *ast.File {
	f, err := parser.ParseFile(fset, filepath.Join(dir, name), nil, 0)
	if err != nil {
		fmt.Fprintln(os.Stderr, "gen_uniseg:", err)
		os.Exit(1)
	}
	return f
}

// var <name> = [][3]int{ {lo, hi, prop}, ... }
func readTable(f *ast.File, name string) [][3]int64 {
	for _, d := range f.Decls {
		g, ok := d.(*ast.GenDecl)
		if !ok || g.Tok != token.VAR {
			continue
		}
		for _, s := range g.Specs {
			vs := s.(*ast.ValueSpec)
			if len(vs.Names) != 1 || vs.Names[0].Name != name {
				continue
			}
			if len(vs.Values) != 1 {
				die(vs.Pos(), "table without initialiser")
			}
			cl, ok := vs.Values[0].(*ast.CompositeLit)
			if !ok {
				die(vs.Pos(), "table initialiser is not a composite literal")
			}
			var out [][3]int64
			for _, el := range cl.Elts {
				row, ok := el.(*ast.CompositeLit)
				if !ok || len(row.Elts) != 3 {
					die(el.Pos(), "table row is not a 3-element literal")
				}
				var r [3]int64
				for i, e := range row.Elts {
					r[i] = evalConst(e, 0)
				}
				out = append(out, r)
			}
			// the binary search of propertySearch needs sorted, disjoint ranges
			for i := range out {
				if out[i][0] > out[i][1] || (i > 0 && out[i-1][1] >= out[i][0]) {
					die(cl.Pos(), "table %s is not sorted/disjoint at row %d", name, i)
				}
			}
			return out
		}
	}
	die(token.NoPos, "table %s not found", name)
	return nil
}

// the switch of grTransitions: case <state> | <prop><<32: return <newState>, <boundary>, <rule>
func readTransitions(f *ast.File) [][5]int64 {
	var out [][5]int64
	found := false
	for _, d := range f.Decls {
		fn, ok := d.(*ast.FuncDecl)
		if !ok || fn.Name.Name != "grTransitions" {
			continue
		}
		found = true
		if len(fn.Body.List) != 1 {
			die(fn.Pos(), "grTransitions: body is not a single switch")
		}
		sw, ok := fn.Body.List[0].(*ast.SwitchStmt)
		if !ok {
			die(fn.Pos(), "grTransitions: body is not a switch")
		}
		// tag: uint64(state) | uint64(prop)<<32
		if tg, ok := sw.Tag.(*ast.BinaryExpr); !ok || tg.Op != token.OR {
			die(sw.Pos(), "grTransitions: unexpected switch tag")
		}
		seenDefault := false
		for _, c := range sw.Body.List {
			cc := c.(*ast.CaseClause)
			if len(cc.Body) != 1 {
				die(cc.Pos(), "case body")
			}
			ret, ok := cc.Body[0].(*ast.ReturnStmt)
			if !ok || len(ret.Results) != 3 {
				die(cc.Pos(), "case body is not a 3-value return")
			}
			if cc.List == nil {
				seenDefault = true
				for _, r := range ret.Results {
					u, ok := r.(*ast.UnaryExpr)
					if !ok || u.Op != token.SUB || evalConst(u.X, 0) != 1 {
						die(r.Pos(), "default case must return -1, -1, -1")
					}
				}
				continue
			}
			for _, e := range cc.List {
				b, ok := e.(*ast.BinaryExpr)
				if !ok || b.Op != token.OR {
					die(e.Pos(), "case expression is not state | prop<<32")
				}
				sh, ok := b.Y.(*ast.BinaryExpr)
				if !ok || sh.Op != token.SHL || evalConst(sh.Y, 0) != 32 {
					die(e.Pos(), "case expression is not state | prop<<32")
				}
				out = append(out, [5]int64{evalConst(b.X, 0), evalConst(sh.X, 0),
					evalConst(ret.Results[0], 0), evalConst(ret.Results[1], 0), evalConst(ret.Results[2], 0)})
			}
		}
		if !seenDefault {
			die(sw.Pos(), "grTransitions: no default case")
		}
	}
	if !found {
		die(token.NoPos, "grTransitions not found")
	}
	return out
}

func rangeTable(t *unicode.RangeTable) [][2]int64 {
	var out [][2]int64
	add := func(lo, hi, stride int64) {
		if stride == 1 {
			out = append(out, [2]int64{lo, hi})
			return
		}
		for c := lo; c <= hi; c += stride {
			out = append(out, [2]int64{c, c})
		}
	}
	for _, r := range t.R16 {
		add(int64(r.Lo), int64(r.Hi), int64(r.Stride))
	}
	for _, r := range t.R32 {
		add(int64(r.Lo), int64(r.Hi), int64(r.Stride))
	}
	sort.Slice(out, func(i, j int) bool { return out[i][0] < out[j][0] })
	return out
}

func main() {
	repo := flag.String("repo", "/repo", "termemu source tree")
	out := flag.String("out", ".", "output directory")
	flag.Parse()
	cmd := exec.Command("go", "list", "-m", "-f", "{{.Dir}}", "github.com/rivo/uniseg")
	cmd.Dir = *repo
	cmd.Stderr = os.Stderr
	b, err := cmd.Output()
	if err != nil {
		fmt.Fprintln(os.Stderr, "gen_uniseg: cannot locate github.com/rivo/uniseg:", err)
		os.Exit(1)
	}
	dir := strings.TrimSpace(string(b))
	ver := filepath.Base(dir)

	props := parse(dir, "properties.go")
	rules := parse(dir, "graphemerules.go")
	readConsts(props)
	readConsts(rules)
	step := parse(dir, "step.go")
	readConsts(step)
	gp := readTable(parse(dir, "graphemeproperties.go"), "graphemeCodePoints")
	ea := readTable(parse(dir, "eastasianwidth.go"), "eastAsianWidth")
	ep := readTable(parse(dir, "emojipresentation.go"), "emojiPresentation")
	tr := readTransitions(rules)

	var w strings.Builder
	fmt.Fprintf(&w, "(* GENERATED by tools/gen_uniseg from %s and the Go toolchain's unicode tables (Unicode %s). DO NOT EDIT. *)\n", ver, unicode.Version)
	w.WriteString("From Coq Require Import List ZArith.\nImport ListNotations.\nOpen Scope Z_scope.\n\n")
	for _, n := range constOrder {
		if strings.HasPrefix(n, "pr") || strings.HasPrefix(n, "gr") || n == "vs15" || n == "vs16" ||
			n == "ShiftWidth" || n == "shiftPropState" || n == "maskGraphemeState" {
			fmt.Fprintf(&w, "Definition u_%s : Z := %d.\n", n, consts[n])
		}
	}
	table3 := func(name string, t [][3]int64) {
		fmt.Fprintf(&w, "\nDefinition u_%s : list (Z * Z * Z) := [\n", name)
		for i, r := range t {
			sep := ";"
			if i == len(t)-1 {
				sep = ""
			}
			fmt.Fprintf(&w, " (%d, %d, %d)%s\n", r[0], r[1], r[2], sep)
		}
		w.WriteString("].\n")
	}
	table3("graphemeCodePoints", gp)
	table3("eastAsianWidth", ea)
	table3("emojiPresentation", ep)
	w.WriteString("\n(* grTransitions: ((state, property), (new state, boundary, rule)) *)\nDefinition u_grTransitions : list (Z * Z * (Z * Z * Z)) := [\n")
	for i, r := range tr {
		sep := ";"
		if i == len(tr)-1 {
			sep = ""
		}
		fmt.Fprintf(&w, " (%d, %d, (%d, %d, %d))%s\n", r[0], r[1], r[2], r[3], r[4], sep)
	}
	w.WriteString("].\n")
	table2 := func(name string, t [][2]int64) {
		fmt.Fprintf(&w, "\nDefinition u_%s : list (Z * Z) := [\n", name)
		for i, r := range t {
			sep := ";"
			if i == len(t)-1 {
				sep = ""
			}
			fmt.Fprintf(&w, " (%d, %d)%s\n", r[0], r[1], sep)
		}
		w.WriteString("].\n")
	}
	table2("unicodeMn", rangeTable(unicode.Mn))
	table2("unicodeMe", rangeTable(unicode.Me))
	if err := os.WriteFile(filepath.Join(*out, "Gen_Uniseg.v"), []byte(w.String()), 0o644); err != nil {
		fmt.Fprintln(os.Stderr, "gen_uniseg:", err)
		os.Exit(1)
	}
}
