module verif/tools/gen_uniseg

go 1.23.0
