#!/bin/bash
# tools/campaign_shard.sh <k> <n> : runs every n-th seeded change starting at the k-th (0-based) against the check of its own
# property from this copy of /verif (meant for `vp run`); one line per change on stdout.
V=$(cd "$(dirname "$0")/.." && pwd)
cd $V
k=$1; n=$2
[ -d build ] || bin/setup >/dev/null 2>&1 || { echo "setup failed"; exit 2; }
i=0
for d in seeded/C*-m*; do
  id=$(basename $d)
  if [ $((i % n)) -eq $k ]; then tools/run_mutant.sh $id ${id%%-*}; fi
  i=$((i+1))
done
echo shard-done
