#!/bin/bash
# re-runs the seeded mutants given as arguments (default: those the last campaign missed); results in build/mutation-results.txt (replacing earlier lines)
cd /verif
ids="$@"
[ -z "$ids" ] && ids=$(grep -E 'rc=0|does not apply' build/mutation-results.txt | sed 's/[: ].*//' | sort -u)
for id in $ids; do
  prop=${id%%-*}
  grep -v "^$id[ :]" build/mutation-results.txt > build/mr.tmp; mv build/mr.tmp build/mutation-results.txt
  tools/run_mutant.sh $id $prop >> build/mutation-results.txt 2>&1
done
