#!/bin/bash
# re-runs the seeded mutants given as arguments (default: those the last campaign missed); results in seeded/latest-results.txt (replacing earlier lines)
cd /verif
ids="$@"
[ -z "$ids" ] && ids=$(grep -E 'rc=0|does not apply' seeded/latest-results.txt | sed 's/[: ].*//' | sort -u)
for id in $ids; do
  prop=${id%%-*}
  grep -v "^$id[ :]" seeded/latest-results.txt > build/mr.tmp; mv build/mr.tmp seeded/latest-results.txt
  tools/run_mutant.sh $id $prop >> seeded/latest-results.txt 2>&1
done
