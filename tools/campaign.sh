#!/bin/bash
# runs every seeded mutant against the check of its own property; results appended to seeded/latest-results.txt
cd /verif
for d in seeded/*/; do
  id=$(basename $d); prop=${id%%-*}
  grep -q "^$id check=$prop " seeded/latest-results.txt 2>/dev/null && continue
  [ -f coq/Properties/$prop.v ] || export VERIF_DEV_NOPROOF=1
  tools/run_mutant.sh $id $prop >> seeded/latest-results.txt 2>&1
  unset VERIF_DEV_NOPROOF
done
