#!/bin/bash
# tools/dev_mutant_extra.sh <seeded-id> <prop> <engine-fn>: run one extra engine against a seeded change in a scratch worktree
V=$(cd "$(dirname "$0")/.." && pwd)
id=$1; WT=/tmp/mutx-wt-$$
git -C /repo worktree add --detach $WT HEAD >/dev/null 2>&1 || exit 2
( cd $WT && git apply $V/seeded/$id/patch.diff ) || { echo "$id: patch does not apply"; git -C /repo worktree remove --force $WT; exit 2; }
( cd $V && VERIF_REPO=$WT tools/dev_extra.py $2 $3 quick 2>&1 | tail -${4:-12} )
git -C /repo worktree remove --force $WT
