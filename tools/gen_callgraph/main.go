// gen_callgraph reads the non-test Go files of package termemu and writes
// Gen_CallGraph.v: for every function / method an ordered tree of lock
// relevant events (see Model/Conc.v for the event language and its semantics).
//
// Usage: gen_callgraph -dir /repo -o Gen_CallGraph.v [-modname Gen_CallGraph]
//
// Only the standard library is used (go/parser, go/ast, go/types with the
// "source" importer; run with GOFLAGS=-mod=mod GOPROXY=off so that the module
// cache is used offline).
//
// The translator is part of the trusted base of property C15.  Its rules are
// listed in REPORT.md; every syntactic shape that is not understood and could
// hide a lock operation, a callback or a call is emitted as
//
//	Unsupported "<pos>: <shape>"
//
// which makes the Coq checker fail for every entry that can reach it.
package main

import (
	"flag"
	"fmt"
	"go/ast"
	"go/importer"
	"go/parser"
	"go/token"
	"go/types"
	"os"
	"path/filepath"
	"sort"
	"strings"
)

// ---------------------------------------------------------------------------
// Configuration tables (trusted, documented in REPORT.md)
// ---------------------------------------------------------------------------

const pkgPath = "github.com/ricochet1k/termemu"

// Files never read.
func skipFile(name string) bool {
	return !strings.HasSuffix(name, ".go") || strings.HasSuffix(name, "_test.go") || name == "verif_hooks.go"
}

// Structs whose fields are guarded, and the guarding mutex.
var guardedStruct = map[string]string{
	"terminal":     "MTerm",
	"spanScreen":   "MTerm",
	"gridScreen":   "MTerm",
	"keyboardMode": "MTerm",
	"TTYFrontend":  "MTty",
	"TeeBackend":   "MTee",
}

// Fields of guarded structs that are NOT guarded: the mutexes themselves and
// fields that are written only before the object is shared (constructor /
// startReadLoop, which runs before New returns).
var unguardedField = map[string]string{
	"terminal.Mutex":           "the lock itself",
	"terminal.backend":         "set once in newTerminal, never written afterwards",
	"terminal.textReadMode":    "set once in newTerminal, never written afterwards",
	"terminal.readLoopStarted": "only used by startReadLoop, which runs inside New before the terminal is shared",
	"terminal.readLoopDone":    "channel created in startReadLoop before the goroutine is spawned; closed once",
	"TTYFrontend.mu":           "the lock itself",
	"TeeBackend.mu":            "the lock itself",
	"TeeBackend.backend":       "set once in NewTeeBackend, never written afterwards",
}

// Interface-typed fields that hold a value supplied by the client which is
// assumed not to be an object of this package (trusted base): calls through
// them are opaque instead of fanning out to every in-package implementer.
var externalField = map[string]string{
	"TTYFrontend.out": "the writer a TTYFrontend draws on (a real terminal); never the emulated terminal or one of its backends",
	"TeeBackend.tee":  "the tee writer set by the client; never the emulated terminal or one of its backends",
}

// Method names that are potentially blocking reads when invoked on an
// interface value or on a type from another package.
var blockingRead = map[string]bool{
	"Read": true, "ReadByte": true, "ReadRune": true, "ReadString": true,
	"ReadBytes": true, "ReadLine": true, "ReadSlice": true, "Peek": true,
	"ReadFrom": true, "ReadAt": true, "ReadFull": true, "ReadAll": true,
}

// Methods that fmt and friends call on values passed as interface{}.
var stringerLike = []string{"String", "Error", "Format", "GoString"}

// ---------------------------------------------------------------------------
// Event tree
// ---------------------------------------------------------------------------

type Ev struct {
	Kind  string // Lock Unlock DeferUnlock WithLock Call CallIface CallParam Cb Block Access Spawn Branch Loop Scope Return Break Continue Panic Unsupported
	M     string // mutex
	S     string // name / message / field
	W     bool   // write access
	F     string // callee
	Impls []string
	A, B  []Ev
}

type gen struct {
	fset        *token.FileSet
	info        *types.Info
	pkg         *types.Package
	dir         string
	funcs       map[*types.Func]string // in-package functions with bodies -> name
	names       []string               // function names in emission order
	bodies      map[string][]Ev
	where       map[string]string     // name -> position
	fields      map[*types.Var]string // field object -> "Struct.field"
	named       []*types.Named        // all named non-interface types of the package
	curFn       string
	curSig      *types.Signature
	nlit        int
	usedFields  map[string]string // field name -> mutex
	usedBlocks  map[string]bool
	unsupported []string
}

func (g *gen) pos(n ast.Node) string {
	p := g.fset.Position(n.Pos())
	return fmt.Sprintf("%s:%d:%d", filepath.Base(p.Filename), p.Line, p.Column)
}

func (g *gen) unsup(n ast.Node, shape string) Ev {
	msg := g.pos(n) + ": " + shape
	g.unsupported = append(g.unsupported, g.curFn+": "+msg)
	return Ev{Kind: "Unsupported", S: msg}
}

// ---------------------------------------------------------------------------
// Type helpers
// ---------------------------------------------------------------------------

func deref(t types.Type) types.Type {
	if p, ok := t.Underlying().(*types.Pointer); ok {
		return p.Elem()
	}
	return t
}

func (g *gen) localNamed(t types.Type) *types.Named {
	if t == nil {
		return nil
	}
	if n, ok := deref(t).(*types.Named); ok && n.Obj().Pkg() == g.pkg {
		return n
	}
	return nil
}

func (g *gen) localNamedName(t types.Type) string {
	if n := g.localNamed(t); n != nil {
		return n.Obj().Name()
	}
	return ""
}

// implementers returns the names of the in-package functions that implement
// method meth of interface iface (every named type T of the package such that
// T or *T implements iface).
func (g *gen) implementers(iface *types.Interface, meth string) []string {
	var out []string
	for _, n := range g.named {
		var recv types.Type
		if types.Implements(n, iface) {
			recv = n
		} else if types.Implements(types.NewPointer(n), iface) {
			recv = types.NewPointer(n)
		} else {
			continue
		}
		obj, _, _ := types.LookupFieldOrMethod(recv, true, g.pkg, meth)
		if fn, ok := obj.(*types.Func); ok {
			if name, ok := g.funcs[fn]; ok {
				out = append(out, name)
			}
			// a method promoted from an embedded out-of-package type has no
			// in-package body: it is an external implementer (opaque)
		}
	}
	sort.Strings(out)
	return out
}

// isSyncType reports whether t is (a pointer to) a named type of package sync
// or sync/atomic.
func isSyncType(t types.Type) bool {
	if t == nil {
		return false
	}
	n, ok := deref(t).(*types.Named)
	if !ok || n.Obj().Pkg() == nil {
		return false
	}
	p := n.Obj().Pkg().Path()
	return p == "sync" || p == "sync/atomic"
}

// mutexOf identifies the mutex designated by the receiver expression of a
// sync.Mutex method call.
func (g *gen) mutexOf(x ast.Expr) string {
	x = ast.Unparen(x)
	tv, ok := g.info.Types[x]
	if !ok {
		return ""
	}
	if g.localNamedName(tv.Type) == "terminal" {
		return "MTerm" // promoted from the embedded sync.Mutex
	}
	if sel, ok := x.(*ast.SelectorExpr); ok {
		if s := g.info.Selections[sel]; s != nil && s.Kind() == types.FieldVal {
			switch g.fields[s.Obj().(*types.Var)] {
			case "TTYFrontend.mu":
				return "MTty"
			case "TeeBackend.mu":
				return "MTee"
			case "terminal.Mutex":
				return "MTerm"
			}
		}
	}
	return ""
}

// ---------------------------------------------------------------------------
// Expressions
// ---------------------------------------------------------------------------

func (g *gen) exprs(es []ast.Expr, out *[]Ev) {
	for _, e := range es {
		g.expr(e, false, out)
	}
}

// expr appends the events of evaluating e.  write is true when e denotes a
// location that is being assigned / incremented / whose address is taken.
func (g *gen) expr(e ast.Expr, write bool, out *[]Ev) {
	if e != nil {
		if tv, ok := g.info.Types[e]; ok && tv.IsValue() && isSyncType(tv.Type) {
			// a mutex (or another sync object) used as a value: aliased, passed
			// as an argument, copied ...  The only supported use is as the
			// receiver of Lock / Unlock, which methodCall does not route here.
			*out = append(*out, g.unsup(e, "value of type "+tv.Type.String()+" used other than as receiver of Lock/Unlock"))
			return
		}
	}
	switch e := e.(type) {
	case nil:
	case *ast.BadExpr:
		*out = append(*out, g.unsup(e, "bad expression"))
	case *ast.Ident:
		if fn, ok := g.info.Uses[e].(*types.Func); ok && fn.Pkg() == g.pkg {
			*out = append(*out, g.unsup(e, "in-package function used as a value: "+e.Name))
		}
	case *ast.BasicLit, *ast.Ellipsis:
	case *ast.FuncLit:
		// A func literal in a position that is not handled by call():
		// acceptable only if its body has no events at all.
		var body []Ev
		g.funcLitBody(e, &body)
		if len(body) > 0 {
			*out = append(*out, g.unsup(e, "func literal with events in an unsupported position"))
		}
	case *ast.CompositeLit:
		for _, el := range e.Elts {
			if kv, ok := el.(*ast.KeyValueExpr); ok {
				// struct field keys are identifiers, not expressions to evaluate
				if _, isIdent := kv.Key.(*ast.Ident); !isIdent {
					g.expr(kv.Key, false, out)
				}
				g.expr(kv.Value, false, out)
			} else {
				g.expr(el, false, out)
			}
		}
	case *ast.ParenExpr:
		g.expr(e.X, write, out)
	case *ast.SelectorExpr:
		g.selector(e, write, out)
	case *ast.IndexExpr:
		g.expr(e.X, write, out)
		g.expr(e.Index, false, out)
	case *ast.IndexListExpr:
		*out = append(*out, g.unsup(e, "generic instantiation"))
	case *ast.SliceExpr:
		g.expr(e.X, write, out)
		g.expr(e.Low, false, out)
		g.expr(e.High, false, out)
		g.expr(e.Max, false, out)
	case *ast.TypeAssertExpr:
		g.expr(e.X, false, out)
	case *ast.CallExpr:
		g.call(e, out)
	case *ast.StarExpr:
		g.expr(e.X, write, out)
	case *ast.UnaryExpr:
		switch e.Op {
		case token.AND:
			g.expr(e.X, true, out) // address taken: treated as a write
		case token.ARROW:
			*out = append(*out, g.unsup(e, "channel receive"))
		default:
			g.expr(e.X, false, out)
		}
	case *ast.BinaryExpr:
		g.expr(e.X, false, out)
		g.expr(e.Y, false, out) // short-circuit operands are over-approximated as always evaluated
	case *ast.KeyValueExpr:
		g.expr(e.Key, false, out)
		g.expr(e.Value, false, out)
	case *ast.ArrayType, *ast.StructType, *ast.FuncType, *ast.InterfaceType, *ast.MapType, *ast.ChanType:
	default:
		*out = append(*out, g.unsup(e, fmt.Sprintf("expression %T", e)))
	}
}

func (g *gen) selector(e *ast.SelectorExpr, write bool, out *[]Ev) {
	s := g.info.Selections[e]
	if s == nil {
		// qualified identifier pkg.Name
		if fn, ok := g.info.Uses[e.Sel].(*types.Func); ok && fn.Pkg() == g.pkg {
			*out = append(*out, g.unsup(e, "in-package function used as a value"))
		}
		return
	}
	switch s.Kind() {
	case types.FieldVal:
		// writing x.f.g writes (part of) x.f
		g.expr(e.X, write, out)
		// every field on the (possibly promoted) path
		g.fieldAccess(e, s, write, out)
	case types.MethodVal:
		g.expr(e.X, false, out)
		*out = append(*out, g.unsup(e, "method value "+e.Sel.Name))
	case types.MethodExpr:
		*out = append(*out, g.unsup(e, "method expression "+e.Sel.Name))
	}
}

func (g *gen) fieldAccess(e *ast.SelectorExpr, s *types.Selection, write bool, out *[]Ev) {
	// walk the implicit embedded-field path as well
	t := s.Recv()
	idx := s.Index()
	for _, k := range idx {
		st, ok := deref(t).Underlying().(*types.Struct)
		if !ok {
			return
		}
		f := st.Field(k)
		name := g.fields[f]
		if name != "" {
			owner := name[:strings.Index(name, ".")]
			if m, ok := guardedStruct[owner]; ok {
				if _, un := unguardedField[name]; !un {
					g.usedFields[name] = m
					*out = append(*out, Ev{Kind: "Access", M: m, S: name, W: write})
				}
			}
		}
		t = f.Type()
	}
}

// calleeName resolves a call's Fun to an in-package function with a body.
func (g *gen) staticCallee(fun ast.Expr) (*types.Func, bool) {
	switch f := ast.Unparen(fun).(type) {
	case *ast.Ident:
		fn, ok := g.info.Uses[f].(*types.Func)
		return fn, ok
	case *ast.SelectorExpr:
		if s := g.info.Selections[f]; s != nil {
			if s.Kind() == types.MethodVal {
				fn, ok := s.Obj().(*types.Func)
				return fn, ok
			}
			return nil, false
		}
		fn, ok := g.info.Uses[f.Sel].(*types.Func)
		return fn, ok
	}
	return nil, false
}

func (g *gen) call(c *ast.CallExpr, out *[]Ev) {
	fun := ast.Unparen(c.Fun)

	// type conversion
	if tv, ok := g.info.Types[fun]; ok && tv.IsType() {
		g.exprs(c.Args, out)
		return
	}
	// builtin
	if id, ok := fun.(*ast.Ident); ok {
		if b, ok := g.info.Uses[id].(*types.Builtin); ok {
			g.exprs(c.Args, out)
			switch b.Name() {
			case "panic":
				*out = append(*out, Ev{Kind: "Panic"})
			case "recover":
				*out = append(*out, g.unsup(c, "recover()"))
			}
			return
		}
	}
	// immediately invoked func literal
	if fl, ok := fun.(*ast.FuncLit); ok {
		*out = append(*out, g.unsup(fl, "immediately invoked func literal"))
		return
	}

	// method call through a selection
	if sel, ok := fun.(*ast.SelectorExpr); ok {
		if s := g.info.Selections[sel]; s != nil {
			switch s.Kind() {
			case types.MethodVal:
				g.methodCall(c, sel, s, out)
				return
			case types.FieldVal:
				// call of a func-typed field
				g.expr(sel, false, out)
				g.exprs(c.Args, out)
				*out = append(*out, g.unsup(c, "call of func-typed field "+sel.Sel.Name))
				return
			default:
				*out = append(*out, g.unsup(c, "call of method expression"))
				return
			}
		}
	}

	// plain function (in-package or qualified)
	if fn, ok := g.staticCallee(fun); ok {
		g.argsWithCallbacks(c, fn, out)
		if fn.Pkg() == g.pkg {
			if name, ok := g.funcs[fn]; ok {
				*out = append(*out, Ev{Kind: "Call", F: name})
			} else {
				*out = append(*out, g.unsup(c, "in-package function without body: "+fn.Name()))
			}
		} else if blockingRead[fn.Name()] {
			g.block(fn.FullName(), out)
		}
		return
	}

	// dynamic call of a func value
	g.exprs(c.Args, out)
	if id, ok := fun.(*ast.Ident); ok {
		if v, ok := g.info.Uses[id].(*types.Var); ok && g.isParam(v) {
			*out = append(*out, Ev{Kind: "CallParam", S: id.Name})
			return
		}
	}
	*out = append(*out, g.unsup(c, "dynamic call of a func value"))
}

func (g *gen) isParam(v *types.Var) bool {
	if g.curSig == nil {
		return false
	}
	ps := g.curSig.Params()
	for i := 0; i < ps.Len(); i++ {
		if ps.At(i) == v {
			return true
		}
	}
	return false
}

func (g *gen) block(what string, out *[]Ev) {
	g.usedBlocks[what] = true
	*out = append(*out, Ev{Kind: "Block", S: what})
}

func (g *gen) methodCall(c *ast.CallExpr, sel *ast.SelectorExpr, s *types.Selection, out *[]Ev) {
	fn := s.Obj().(*types.Func)
	recv := s.Recv()
	name := fn.Name()

	// sync.Mutex operations
	if fn.Pkg() != nil && (fn.Pkg().Path() == "sync" || fn.Pkg().Path() == "sync/atomic") {
		// walk the base of the mutex designator (t in t.mu.Lock()), not the
		// mutex-typed selector itself (expr would flag it as a mutex value)
		if inner, ok := ast.Unparen(sel.X).(*ast.SelectorExpr); ok {
			if tv, ok := g.info.Types[inner]; ok && isSyncType(tv.Type) {
				g.expr(inner.X, false, out)
			} else {
				g.expr(sel.X, false, out)
			}
		} else if tv, ok := g.info.Types[sel.X]; ok && isSyncType(tv.Type) {
			*out = append(*out, g.unsup(sel.X, "sync object reached through an alias"))
		} else {
			g.expr(sel.X, false, out)
		}
		full := fn.FullName()
		if strings.HasPrefix(full, "(*sync.Mutex).") {
			m := g.mutexOf(sel.X)
			g.exprs(c.Args, out)
			if m == "" {
				*out = append(*out, g.unsup(c, "sync.Mutex."+name+" on an unidentified mutex"))
				return
			}
			switch name {
			case "Lock":
				*out = append(*out, Ev{Kind: "Lock", M: m})
			case "Unlock":
				*out = append(*out, Ev{Kind: "Unlock", M: m})
			default:
				*out = append(*out, g.unsup(c, "sync.Mutex."+name))
			}
			return
		}
		g.exprs(c.Args, out)
		*out = append(*out, g.unsup(c, "synchronisation primitive "+full))
		return
	}

	// receiver expression first
	g.expr(sel.X, false, out)

	recvNamed := g.localNamedName(recv)

	// the terminal lock through the Terminal interface or the concrete type
	if (recvNamed == "Terminal" || recvNamed == "terminal") && (name == "Lock" || name == "Unlock" || name == "WithLock") {
		switch name {
		case "Lock":
			*out = append(*out, Ev{Kind: "Lock", M: "MTerm"})
		case "Unlock":
			*out = append(*out, Ev{Kind: "Unlock", M: "MTerm"})
		case "WithLock":
			if len(c.Args) == 1 {
				if fl, ok := ast.Unparen(c.Args[0]).(*ast.FuncLit); ok {
					var body []Ev
					g.funcLitBody(fl, &body)
					*out = append(*out, Ev{Kind: "WithLock", M: "MTerm", A: body})
					return
				}
			}
			*out = append(*out, g.unsup(c, "WithLock with an argument that is not a func literal"))
		}
		return
	}

	if types.IsInterface(recv) {
		iface := recv.Underlying().(*types.Interface)
		g.exprs(c.Args, out)
		if recvNamed == "Frontend" {
			*out = append(*out, Ev{Kind: "Cb", S: name})
		}
		if blockingRead[name] {
			g.block(types.TypeString(recv, func(p *types.Package) string { return p.Name() })+"."+name, out)
		}
		// A write to the backend (the PTY or a pipe) blocks while the other side does not
		// read; it is treated like a blocking read: not under the terminal lock.
		if recvNamed == "Backend" && name == "Write" {
			g.block("write "+types.TypeString(recv, func(p *types.Package) string { return p.Name() })+"."+name, out)
		}
		impls := g.implementers(iface, name)
		if fsel, ok := ast.Unparen(sel.X).(*ast.SelectorExpr); ok {
			if fs, ok := g.info.Selections[fsel]; ok && fs.Kind() == types.FieldVal {
				if _, ext := externalField[g.localNamedName(fs.Recv())+"."+fs.Obj().Name()]; ext {
					impls = nil
				}
			}
		}
		*out = append(*out, Ev{Kind: "CallIface", S: name, Impls: impls})
		return
	}

	// concrete receiver
	g.argsWithCallbacks(c, fn, out)
	if fn.Pkg() == g.pkg {
		if fname, ok := g.funcs[fn]; ok {
			*out = append(*out, Ev{Kind: "Call", F: fname})
		} else {
			*out = append(*out, g.unsup(c, "in-package method without body: "+name))
		}
		return
	}
	if blockingRead[name] {
		g.block(fn.FullName(), out)
	}
}

// argsWithCallbacks walks the arguments of a call to a statically known
// callee.  For callees outside the package, a value of an in-package type
// passed for an interface-typed parameter may have the methods of that
// interface called by the external code: those calls are emitted.
func (g *gen) argsWithCallbacks(c *ast.CallExpr, fn *types.Func, out *[]Ev) {
	g.exprs(c.Args, out)
	if fn.Pkg() == g.pkg {
		return
	}
	sig, ok := fn.Type().(*types.Signature)
	if !ok {
		return
	}
	for i, a := range c.Args {
		tv, ok := g.info.Types[a]
		if !ok || g.localNamed(tv.Type) == nil {
			continue
		}
		var pt types.Type
		np := sig.Params().Len()
		switch {
		case sig.Variadic() && i >= np-1:
			pt = sig.Params().At(np - 1).Type()
			if sl, ok := pt.(*types.Slice); ok && !c.Ellipsis.IsValid() {
				pt = sl.Elem()
			}
		case i < np:
			pt = sig.Params().At(i).Type()
		default:
			continue
		}
		pi, ok := pt.Underlying().(*types.Interface)
		if !ok {
			continue
		}
		var meths []string
		if pi.NumMethods() == 0 {
			meths = stringerLike
		} else {
			for k := 0; k < pi.NumMethods(); k++ {
				meths = append(meths, pi.Method(k).Name())
			}
		}
		for _, m := range meths {
			if types.IsInterface(tv.Type) {
				ai := tv.Type.Underlying().(*types.Interface)
				has := false
				for k := 0; k < ai.NumMethods(); k++ {
					if ai.Method(k).Name() == m {
						has = true
					}
				}
				if !has {
					continue
				}
				if g.localNamedName(tv.Type) == "Frontend" {
					*out = append(*out, Ev{Kind: "Cb", S: m})
				}
				if blockingRead[m] {
					g.block(g.localNamedName(tv.Type)+"."+m+" (via "+fn.FullName()+")", out)
				}
				*out = append(*out, Ev{Kind: "CallIface", S: m, Impls: g.implementers(ai, m)})
				continue
			}
			obj, _, _ := types.LookupFieldOrMethod(tv.Type, true, g.pkg, m)
			if mf, ok := obj.(*types.Func); ok {
				if fname, ok := g.funcs[mf]; ok {
					*out = append(*out, Ev{Kind: "Call", F: fname})
				}
			}
		}
	}
}

// funcLitBody translates the body of a func literal as its own frame.
func (g *gen) funcLitBody(fl *ast.FuncLit, out *[]Ev) {
	// Inside a literal no parameter is a "CallParam": calls of func values
	// (the literal's own parameters or captured ones) are Unsupported.
	saved := g.curSig
	g.curSig = nil
	g.block_(fl.Body.List, out)
	g.curSig = saved
}

// ---------------------------------------------------------------------------
// Statements
// ---------------------------------------------------------------------------

func (g *gen) block_(list []ast.Stmt, out *[]Ev) {
	for _, s := range list {
		g.stmt(s, out)
	}
}

func hasUnlabeledContinue(n ast.Node) bool {
	found := false
	ast.Inspect(n, func(x ast.Node) bool {
		switch x := x.(type) {
		case *ast.FuncLit, *ast.ForStmt, *ast.RangeStmt:
			if x != n {
				return false
			}
		case *ast.BranchStmt:
			if x.Tok == token.CONTINUE {
				found = true
			}
		}
		return true
	})
	return found
}

func (g *gen) stmt(s ast.Stmt, out *[]Ev) {
	switch s := s.(type) {
	case nil:
	case *ast.BadStmt:
		*out = append(*out, g.unsup(s, "bad statement"))
	case *ast.EmptyStmt:
	case *ast.DeclStmt:
		if gd, ok := s.Decl.(*ast.GenDecl); ok {
			for _, sp := range gd.Specs {
				if vs, ok := sp.(*ast.ValueSpec); ok {
					g.exprs(vs.Values, out)
				}
			}
		}
	case *ast.ExprStmt:
		g.expr(s.X, false, out)
	case *ast.IncDecStmt:
		g.expr(s.X, true, out)
	case *ast.AssignStmt:
		g.exprs(s.Rhs, out)
		for _, l := range s.Lhs {
			g.expr(l, true, out)
		}
	case *ast.SendStmt:
		*out = append(*out, g.unsup(s, "channel send"))
	case *ast.GoStmt:
		g.goStmt(s, out)
	case *ast.DeferStmt:
		g.deferStmt(s, out)
	case *ast.ReturnStmt:
		g.exprs(s.Results, out)
		*out = append(*out, Ev{Kind: "Return"})
	case *ast.BranchStmt:
		if s.Label != nil {
			*out = append(*out, g.unsup(s, "labelled "+s.Tok.String()))
			return
		}
		switch s.Tok {
		case token.BREAK:
			*out = append(*out, Ev{Kind: "Break"})
		case token.CONTINUE:
			*out = append(*out, Ev{Kind: "Continue"})
		case token.GOTO:
			*out = append(*out, g.unsup(s, "goto"))
		case token.FALLTHROUGH:
			// handled by switchStmt; a stray one is a shape we do not know
			*out = append(*out, g.unsup(s, "fallthrough outside the last position of a case"))
		}
	case *ast.BlockStmt:
		g.block_(s.List, out)
	case *ast.LabeledStmt:
		*out = append(*out, g.unsup(s, "labelled statement"))
		g.stmt(s.Stmt, out)
	case *ast.IfStmt:
		g.stmt(s.Init, out)
		g.expr(s.Cond, false, out)
		var a, b []Ev
		g.block_(s.Body.List, &a)
		if s.Else != nil {
			g.stmt(s.Else, &b)
		}
		*out = append(*out, Ev{Kind: "Branch", A: a, B: b})
	case *ast.ForStmt:
		g.stmt(s.Init, out)
		var body, post []Ev
		g.expr(s.Cond, false, &body)
		g.block_(s.Body.List, &body)
		g.stmt(s.Post, &post)
		if len(post) > 0 && hasUnlabeledContinue(s) {
			body = append(body, g.unsup(s, "for loop whose post statement has events and whose body uses continue"))
		}
		body = append(body, post...)
		*out = append(*out, Ev{Kind: "Loop", A: body})
	case *ast.RangeStmt:
		g.expr(s.X, false, out)
		var body []Ev
		if s.Tok == token.ASSIGN {
			g.expr(s.Key, true, &body)
			g.expr(s.Value, true, &body)
		}
		g.block_(s.Body.List, &body)
		*out = append(*out, Ev{Kind: "Loop", A: body})
	case *ast.SwitchStmt:
		var in []Ev
		g.stmt(s.Init, &in)
		g.expr(s.Tag, false, &in)
		g.cases(s.Body.List, &in)
		*out = append(*out, Ev{Kind: "Scope", A: in})
	case *ast.TypeSwitchStmt:
		var in []Ev
		g.stmt(s.Init, &in)
		g.stmt(s.Assign, &in)
		g.cases(s.Body.List, &in)
		*out = append(*out, Ev{Kind: "Scope", A: in})
	case *ast.SelectStmt:
		*out = append(*out, g.unsup(s, "select"))
	default:
		*out = append(*out, g.unsup(s, fmt.Sprintf("statement %T", s)))
	}
}

// cases translates the clauses of a (type) switch into a right-nested chain
// of binary Branch events.  A clause ending in fallthrough continues with the
// body of the next clause.  Without a default clause an empty alternative is
// added.
func (g *gen) cases(clauses []ast.Stmt, out *[]Ev) {
	n := len(clauses)
	bodies := make([][]Ev, n)
	falls := make([]bool, n)
	guards := make([][]Ev, n)
	hasDefault := false
	for i, cs := range clauses {
		cc, ok := cs.(*ast.CaseClause)
		if !ok {
			*out = append(*out, g.unsup(cs, "switch clause"))
			return
		}
		if cc.List == nil {
			hasDefault = true
		}
		for _, e := range cc.List {
			if tv, ok := g.info.Types[e]; ok && tv.IsType() {
				continue
			}
			g.expr(e, false, &guards[i])
		}
		list := cc.Body
		if k := len(list); k > 0 {
			if bs, ok := list[k-1].(*ast.BranchStmt); ok && bs.Tok == token.FALLTHROUGH {
				falls[i] = true
				list = list[:k-1]
			}
		}
		g.block_(list, &bodies[i])
	}
	// all guards may be evaluated before any body runs
	for i := range guards {
		*out = append(*out, guards[i]...)
	}
	alts := make([][]Ev, 0, n+1)
	for i := 0; i < n; i++ {
		var alt []Ev
		for j := i; j < n; j++ {
			alt = append(alt, bodies[j]...)
			if !falls[j] {
				break
			}
		}
		alts = append(alts, alt)
	}
	if !hasDefault {
		alts = append(alts, nil)
	}
	*out = append(*out, chain(alts)...)
}

func chain(alts [][]Ev) []Ev {
	// drop duplicate empty alternatives (keep one)
	var keep [][]Ev
	seenEmpty := false
	for _, a := range alts {
		if len(a) == 0 {
			if seenEmpty {
				continue
			}
			seenEmpty = true
		}
		keep = append(keep, a)
	}
	switch len(keep) {
	case 0:
		return nil
	case 1:
		return keep[0]
	}
	return []Ev{{Kind: "Branch", A: keep[0], B: chain(keep[1:])}}
}

func (g *gen) goStmt(s *ast.GoStmt, out *[]Ev) {
	c := s.Call
	if fl, ok := ast.Unparen(c.Fun).(*ast.FuncLit); ok && len(c.Args) == 0 {
		// go func() { ... }(): lift the literal to a synthetic function
		g.nlit++
		name := fmt.Sprintf("%s$go%d", g.curFn, g.nlit)
		var body []Ev
		g.funcLitBody(fl, &body)
		g.addFunc(name, g.pos(fl), body)
		*out = append(*out, Ev{Kind: "Spawn", F: name})
		return
	}
	if fn, ok := g.staticCallee(c.Fun); ok && fn.Pkg() == g.pkg {
		if name, ok := g.funcs[fn]; ok {
			if sel, ok := ast.Unparen(c.Fun).(*ast.SelectorExpr); ok {
				if sl := g.info.Selections[sel]; sl != nil && types.IsInterface(sl.Recv()) {
					*out = append(*out, g.unsup(s, "go statement on an interface method"))
					return
				}
				g.expr(sel.X, false, out)
			}
			g.exprs(c.Args, out)
			*out = append(*out, Ev{Kind: "Spawn", F: name})
			return
		}
	}
	*out = append(*out, g.unsup(s, "go statement with an unsupported callee"))
}

func (g *gen) deferStmt(s *ast.DeferStmt, out *[]Ev) {
	c := s.Call
	var evs []Ev
	g.call(c, &evs)
	// defer m.Unlock(): exactly [.. receiver accesses .., Unlock m]
	if n := len(evs); n > 0 && evs[n-1].Kind == "Unlock" {
		pre := evs[:n-1]
		*out = append(*out, pre...) // receiver / argument evaluation happens now
		*out = append(*out, Ev{Kind: "DeferUnlock", M: evs[n-1].M})
		return
	}
	if len(evs) == 0 {
		return // deferred call of a builtin / out-of-package function without callbacks
	}
	*out = append(*out, g.unsup(s, "defer of a call with events other than a mutex Unlock"))
}

// ---------------------------------------------------------------------------
// Post-processing and output
// ---------------------------------------------------------------------------

// dedupe removes exact duplicates inside maximal runs of Access events (the
// held set cannot change inside such a run).
func dedupe(es []Ev) []Ev {
	var out []Ev
	runStart := 0
	for _, e := range es {
		e.A = dedupe(e.A)
		e.B = dedupe(e.B)
		if e.Kind != "Access" {
			out = append(out, e)
			runStart = len(out)
			continue
		}
		dup := false
		for _, p := range out[runStart:] {
			if p.M == e.M && p.S == e.S && p.W == e.W {
				dup = true
				break
			}
		}
		if !dup {
			out = append(out, e)
		}
	}
	return out
}

// prune removes Branch / Loop / Scope events all of whose bodies are empty
// (they have no events, hence no effect in the model).
func prune(es []Ev) []Ev {
	var out []Ev
	for _, e := range es {
		e.A = prune(e.A)
		e.B = prune(e.B)
		switch e.Kind {
		case "Branch", "Loop", "Scope":
			if len(e.A) == 0 && len(e.B) == 0 {
				continue
			}
		}
		out = append(out, e)
	}
	return out
}

func mangle(s string) string {
	var b strings.Builder
	for _, r := range s {
		switch {
		case r >= 'a' && r <= 'z', r >= 'A' && r <= 'Z', r >= '0' && r <= '9':
			b.WriteRune(r)
		default:
			b.WriteByte('_')
		}
	}
	return b.String()
}

func coqString(s string) string {
	return "\"" + strings.ReplaceAll(s, "\"", "\"\"") + "\""
}

func (g *gen) addFunc(name, pos string, body []Ev) {
	g.names = append(g.names, name)
	g.bodies[name] = body
	g.where[name] = pos
}

func (g *gen) printEvs(b *strings.Builder, es []Ev, ind string) {
	if len(es) == 0 {
		b.WriteString("[]")
		return
	}
	b.WriteString("[")
	for i, e := range es {
		if i > 0 {
			b.WriteString(";")
		}
		b.WriteString("\n" + ind + "  ")
		switch e.Kind {
		case "Lock", "Unlock", "DeferUnlock":
			fmt.Fprintf(b, "%s %s", e.Kind, e.M)
		case "WithLock":
			fmt.Fprintf(b, "WithLock %s ", e.M)
			g.printEvs(b, e.A, ind+"  ")
		case "Call", "Spawn":
			fmt.Fprintf(b, "%s f_%s", e.Kind, mangle(e.F))
		case "CallIface":
			fmt.Fprintf(b, "CallIface %s [", coqString(e.S))
			for k, f := range e.Impls {
				if k > 0 {
					b.WriteString("; ")
				}
				b.WriteString("f_" + mangle(f))
			}
			b.WriteString("]")
		case "CallParam", "Cb":
			fmt.Fprintf(b, "%s %s", e.Kind, coqString(e.S))
		case "Block":
			fmt.Fprintf(b, "Block blk_%s", mangle(e.S))
		case "Unsupported":
			fmt.Fprintf(b, "Unsupported %s", coqString(e.S))
		case "Access":
			rw := "R"
			if e.W {
				rw = "W"
			}
			fmt.Fprintf(b, "Access %s fld_%s %s", e.M, mangle(e.S), rw)
		case "Branch":
			b.WriteString("Branch ")
			g.printEvs(b, e.A, ind+"  ")
			b.WriteString(" ")
			g.printEvs(b, e.B, ind+"  ")
		case "Loop", "Scope":
			b.WriteString(e.Kind + " ")
			g.printEvs(b, e.A, ind+"  ")
		case "Return", "Break", "Continue", "Panic":
			b.WriteString(e.Kind)
		default:
			panic("unknown event kind " + e.Kind)
		}
	}
	b.WriteString("\n" + ind + "]")
}

func countEvs(es []Ev) int {
	n := 0
	for _, e := range es {
		n += 1 + countEvs(e.A) + countEvs(e.B)
	}
	return n
}

func main() {
	dir := flag.String("dir", "/repo", "directory of package termemu")
	outPath := flag.String("o", "Gen_CallGraph.v", "output file")
	flag.Parse()

	absDir, err := filepath.Abs(*dir)
	if err != nil {
		panic(err)
	}
	absOut, err := filepath.Abs(*outPath)
	if err != nil {
		panic(err)
	}
	fset := token.NewFileSet()
	ents, err := os.ReadDir(absDir)
	if err != nil {
		fmt.Fprintln(os.Stderr, err)
		os.Exit(2)
	}
	var files []*ast.File
	var fileNames []string
	for _, e := range ents {
		if e.IsDir() || skipFile(e.Name()) {
			continue
		}
		f, err := parser.ParseFile(fset, filepath.Join(absDir, e.Name()), nil, parser.ParseComments)
		if err != nil {
			fmt.Fprintln(os.Stderr, err)
			os.Exit(2)
		}
		if f.Name.Name != "termemu" {
			continue
		}
		files = append(files, f)
		fileNames = append(fileNames, e.Name())
	}
	// the source importer resolves module dependencies relative to the cwd
	if err := os.Chdir(absDir); err != nil {
		panic(err)
	}
	typeErrs := 0
	conf := types.Config{
		Importer: importer.ForCompiler(fset, "source", nil),
		Error: func(err error) {
			typeErrs++
			fmt.Fprintln(os.Stderr, "type error:", err)
		},
	}
	info := &types.Info{
		Types:      map[ast.Expr]types.TypeAndValue{},
		Selections: map[*ast.SelectorExpr]*types.Selection{},
		Uses:       map[*ast.Ident]types.Object{},
		Defs:       map[*ast.Ident]types.Object{},
	}
	pkg, _ := conf.Check(pkgPath, fset, files, info)
	if typeErrs > 0 || pkg == nil {
		fmt.Fprintln(os.Stderr, "gen_callgraph: type checking failed; refusing to generate")
		os.Exit(2)
	}

	g := &gen{fset: fset, info: info, pkg: pkg, dir: absDir,
		funcs: map[*types.Func]string{}, bodies: map[string][]Ev{}, where: map[string]string{},
		fields: map[*types.Var]string{}, usedFields: map[string]string{}, usedBlocks: map[string]bool{}}

	// named types and their fields
	scope := pkg.Scope()
	for _, n := range scope.Names() {
		tn, ok := scope.Lookup(n).(*types.TypeName)
		if !ok || tn.IsAlias() {
			continue
		}
		named, ok := tn.Type().(*types.Named)
		if !ok {
			continue
		}
		if st, ok := named.Underlying().(*types.Struct); ok {
			for i := 0; i < st.NumFields(); i++ {
				g.fields[st.Field(i)] = n + "." + st.Field(i).Name()
			}
		}
		if !types.IsInterface(named) {
			g.named = append(g.named, named)
		}
	}
	for name := range guardedStruct {
		if _, ok := scope.Lookup(name).(*types.TypeName); !ok {
			fmt.Fprintf(os.Stderr, "gen_callgraph: guarded struct %s not found in package\n", name)
			os.Exit(2)
		}
	}
	for name := range unguardedField {
		found := false
		for _, fn := range g.fields {
			if fn == name {
				found = true
			}
		}
		if !found {
			fmt.Fprintf(os.Stderr, "gen_callgraph: unguarded field %s not found in package\n", name)
			os.Exit(2)
		}
	}

	// function declarations
	type decl struct {
		name string
		fd   *ast.FuncDecl
		fn   *types.Func
	}
	var decls []decl
	for _, f := range files {
		for _, d := range f.Decls {
			fd, ok := d.(*ast.FuncDecl)
			if !ok || fd.Body == nil {
				continue
			}
			fn := info.Defs[fd.Name].(*types.Func)
			name := fd.Name.Name
			if fd.Recv != nil && len(fd.Recv.List) == 1 {
				sig := fn.Type().(*types.Signature)
				rn := g.localNamedName(sig.Recv().Type())
				name = rn + "." + name
			}
			if fd.Name.Name == "init" || fd.Name.Name == "_" {
				name = fmt.Sprintf("%s@%s", name, g.pos(fd))
			}
			decls = append(decls, decl{name, fd, fn})
			g.funcs[fn] = name
		}
	}
	sort.Slice(decls, func(i, j int) bool { return decls[i].name < decls[j].name })
	for i := 1; i < len(decls); i++ {
		if decls[i].name == decls[i-1].name {
			fmt.Fprintf(os.Stderr, "gen_callgraph: duplicate function name %s\n", decls[i].name)
			os.Exit(2)
		}
	}
	for _, d := range decls {
		g.curFn = d.name
		g.curSig = d.fn.Type().(*types.Signature)
		g.nlit = 0
		var body []Ev
		g.block_(d.fd.Body.List, &body)
		g.addFunc(d.name, g.pos(d.fd), body)
	}
	for n, b := range g.bodies {
		g.bodies[n] = dedupe(prune(b))
	}
	sort.Strings(g.names)

	// output
	var b strings.Builder
	fmt.Fprintf(&b, "(* GENERATED by tools/gen_callgraph; DO NOT EDIT.\n   Source: package termemu, files: %s\n   (verif_hooks.go and *_test.go are excluded.) *)\n", strings.Join(fileNames, " "))
	b.WriteString("From Coq Require Import List String.\nFrom Termemu Require Import Conc.\nImport ListNotations.\nOpen Scope string_scope.\n\n")

	b.WriteString("(* Function identifiers: index into [callgraph] and [fn_names]. *)\n")
	for i, n := range g.names {
		fmt.Fprintf(&b, "Definition f_%s : fid := %d. (* %s *)\n", mangle(n), i, g.where[n])
	}
	b.WriteString("\nDefinition fn_names : list string := [\n")
	for i, n := range g.names {
		sep := ";"
		if i == len(g.names)-1 {
			sep = ""
		}
		fmt.Fprintf(&b, "  %s%s\n", coqString(n), sep)
	}
	b.WriteString("].\n\n(* Guarded fields. *)\n")
	var fl []string
	for f := range g.usedFields {
		fl = append(fl, f)
	}
	sort.Strings(fl)
	for _, f := range fl {
		fmt.Fprintf(&b, "Definition fld_%s : string := %s. (* guarded by %s *)\n", mangle(f), coqString(f), g.usedFields[f])
	}
	b.WriteString("\n(* Potentially blocking reads. *)\n")
	var bl []string
	for f := range g.usedBlocks {
		bl = append(bl, f)
	}
	sort.Strings(bl)
	for _, f := range bl {
		fmt.Fprintf(&b, "Definition blk_%s : string := %s.\n", mangle(f), coqString(f))
	}
	b.WriteString("\nDefinition R := false.\nDefinition W := true.\n\n")
	total := 0
	for _, n := range g.names {
		fmt.Fprintf(&b, "(* %s  %s *)\nDefinition body_%s : list ev := ", n, g.where[n], mangle(n))
		g.printEvs(&b, g.bodies[n], "")
		b.WriteString(".\n\n")
		total += countEvs(g.bodies[n])
	}
	b.WriteString("Definition callgraph : list (list ev) := [\n")
	for i, n := range g.names {
		sep := ";"
		if i == len(g.names)-1 {
			sep = ""
		}
		fmt.Fprintf(&b, "  body_%s%s\n", mangle(n), sep)
	}
	b.WriteString("].\n\nDefinition prog : program := mkProgram callgraph fn_names.\n")
	fmt.Fprintf(&b, "\n(* %d functions, %d events, %d Unsupported. *)\n", len(g.names), total, len(g.unsupported))

	if err := os.WriteFile(absOut, []byte(b.String()), 0o644); err != nil {
		// outPath may be relative to the original cwd; we chdir'ed, so report
		fmt.Fprintln(os.Stderr, err)
		os.Exit(2)
	}
	fmt.Fprintf(os.Stderr, "gen_callgraph: %d functions, %d events, %d Unsupported -> %s\n", len(g.names), total, len(g.unsupported), absOut)
	for _, u := range g.unsupported {
		fmt.Fprintln(os.Stderr, "  unsupported:", u)
	}
}
