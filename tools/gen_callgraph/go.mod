module gen_callgraph

go 1.23.0
