module verif/tools/gen_keys

go 1.23.0
