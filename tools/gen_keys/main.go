// gen_keys regenerates the Coq tables the C12 model is defined from.
//
//	go run . -repo /repo -out <dir>
//
// It reads <repo>/keys.go with go/parser and <repo>/keyboard-protocol.rst as
// text and writes <dir>/Gen_KeyTables.v and <dir>/Gen_KittySpec.v.  Every
// syntactic shape it does not understand is an error (exit status 1); nothing
// is skipped silently.
package main

import (
	"flag"
	"fmt"
	"go/ast"
	"go/parser"
	"go/token"
	"os"
	"path/filepath"
	"regexp"
	"strconv"
	"strings"
)

var fset = token.NewFileSet()

func die(pos token.Pos, format string, a ...interface{}) {
	where := ""
	if pos.IsValid() {
		where = fset.Position(pos).String() + ": "
	}
	fmt.Fprintf(os.Stderr, "gen_keys: unsupported: %s%s\n", where, fmt.Sprintf(format, a...))
	os.Exit(1)
}

// ---- canonical printing of the (small) expression/statement subset ----

func es(e ast.Expr) string {
	switch x := e.(type) {
	case *ast.Ident:
		return x.Name
	case *ast.BasicLit:
		return x.Value
	case *ast.SelectorExpr:
		return es(x.X) + "." + x.Sel.Name
	case *ast.ParenExpr:
		return "(" + es(x.X) + ")"
	case *ast.BinaryExpr:
		return es(x.X) + " " + x.Op.String() + " " + es(x.Y)
	case *ast.UnaryExpr:
		return x.Op.String() + es(x.X)
	case *ast.IndexExpr:
		return es(x.X) + "[" + es(x.Index) + "]"
	case *ast.SliceExpr:
		if x.Slice3 {
			die(e.Pos(), "3-index slice")
		}
		lo, hi := "", ""
		if x.Low != nil {
			lo = es(x.Low)
		}
		if x.High != nil {
			hi = es(x.High)
		}
		return es(x.X) + "[" + lo + ":" + hi + "]"
	case *ast.ArrayType:
		if x.Len != nil {
			die(e.Pos(), "sized array type")
		}
		return "[]" + es(x.Elt)
	case *ast.CompositeLit:
		parts := []string{}
		for _, el := range x.Elts {
			parts = append(parts, es(el))
		}
		return es(x.Type) + "{" + strings.Join(parts, ", ") + "}"
	case *ast.CallExpr:
		parts := []string{}
		for _, a := range x.Args {
			parts = append(parts, es(a))
		}
		dots := ""
		if x.Ellipsis.IsValid() {
			dots = "..."
		}
		return es(x.Fun) + "(" + strings.Join(parts, ", ") + dots + ")"
	case *ast.FuncLit:
		return "func" + "{ " + ss(x.Body) + " }"
	}
	die(e.Pos(), "expression %T", e)
	return ""
}

func esl(l []ast.Expr) string {
	parts := []string{}
	for _, e := range l {
		parts = append(parts, es(e))
	}
	return strings.Join(parts, ", ")
}

func ss(s ast.Stmt) string {
	switch x := s.(type) {
	case *ast.ReturnStmt:
		if len(x.Results) == 0 {
			return "return"
		}
		return "return " + esl(x.Results)
	case *ast.AssignStmt:
		return esl(x.Lhs) + " " + x.Tok.String() + " " + esl(x.Rhs)
	case *ast.ExprStmt:
		return es(x.X)
	case *ast.IncDecStmt:
		return es(x.X) + x.Tok.String()
	case *ast.DeclStmt:
		gd, ok := x.Decl.(*ast.GenDecl)
		if !ok || gd.Tok != token.VAR {
			die(s.Pos(), "declaration statement")
		}
		parts := []string{}
		for _, sp := range gd.Specs {
			vs := sp.(*ast.ValueSpec)
			names := []string{}
			for _, n := range vs.Names {
				names = append(names, n.Name)
			}
			t := ""
			if vs.Type != nil {
				t = " " + es(vs.Type)
			}
			v := ""
			if len(vs.Values) > 0 {
				v = " = " + esl(vs.Values)
			}
			parts = append(parts, "var "+strings.Join(names, ", ")+t+v)
		}
		return strings.Join(parts, "; ")
	case *ast.BlockStmt:
		parts := []string{}
		for _, st := range x.List {
			parts = append(parts, ss(st))
		}
		return strings.Join(parts, "; ")
	case *ast.IfStmt:
		r := "if "
		if x.Init != nil {
			r += ss(x.Init) + "; "
		}
		r += es(x.Cond) + " { " + ss(x.Body) + " }"
		if x.Else != nil {
			r += " else { " + ss(x.Else) + " }"
		}
		return r
	case *ast.RangeStmt:
		k, v := "_", "_"
		if x.Key != nil {
			k = es(x.Key)
		}
		if x.Value != nil {
			v = es(x.Value)
		}
		return "for " + k + ", " + v + " " + x.Tok.String() + " range " + es(x.X) + " { " + ss(x.Body) + " }"
	case *ast.SwitchStmt:
		r := "switch "
		if x.Init != nil {
			die(s.Pos(), "switch with init")
		}
		if x.Tag != nil {
			r += es(x.Tag) + " "
		}
		r += "{ "
		for _, c := range x.Body.List {
			cc := c.(*ast.CaseClause)
			if cc.List == nil {
				r += "default: "
			} else {
				r += "case " + esl(cc.List) + ": "
			}
			for _, st := range cc.Body {
				r += ss(st) + "; "
			}
		}
		return r + "}"
	}
	die(s.Pos(), "statement %T", s)
	return ""
}

// ---- literals ----

func intLit(e ast.Expr) int64 {
	switch x := e.(type) {
	case *ast.BasicLit:
		switch x.Kind {
		case token.INT:
			v, err := strconv.ParseInt(x.Value, 0, 64)
			if err != nil {
				die(e.Pos(), "integer literal %s", x.Value)
			}
			return v
		case token.CHAR:
			s := x.Value
			if len(s) < 3 || s[0] != '\'' || s[len(s)-1] != '\'' {
				die(e.Pos(), "char literal %s", s)
			}
			r, _, tail, err := strconv.UnquoteChar(s[1:len(s)-1], '\'')
			if err != nil || tail != "" {
				die(e.Pos(), "char literal %s", s)
			}
			return int64(r)
		}
	}
	die(e.Pos(), "expected an integer or character literal, got %s", es(e))
	return 0
}

// ---- constant blocks ----

type constant struct {
	name string
	val  int64
}

func evalConst(e ast.Expr, iota int64) int64 {
	switch x := e.(type) {
	case *ast.Ident:
		if x.Name == "iota" {
			return iota
		}
	case *ast.BasicLit:
		return intLit(e)
	case *ast.BinaryExpr:
		a, b := evalConst(x.X, iota), evalConst(x.Y, iota)
		switch x.Op {
		case token.SHL:
			return a << uint(b)
		case token.ADD:
			return a + b
		}
	}
	die(e.Pos(), "constant expression %s", es(e))
	return 0
}

// constBlock returns the constants of the const block whose first spec has the given type.
func constBlock(f *ast.File, typ string) []constant {
	for _, d := range f.Decls {
		gd, ok := d.(*ast.GenDecl)
		if !ok || gd.Tok != token.CONST || len(gd.Specs) == 0 {
			continue
		}
		first := gd.Specs[0].(*ast.ValueSpec)
		if id, ok := first.Type.(*ast.Ident); !ok || id.Name != typ {
			continue
		}
		var out []constant
		var cur ast.Expr
		for i, sp := range gd.Specs {
			vs := sp.(*ast.ValueSpec)
			if len(vs.Names) != 1 {
				die(vs.Pos(), "const spec with %d names", len(vs.Names))
			}
			if len(vs.Values) == 1 {
				if i != 0 {
					die(vs.Pos(), "const block %s: explicit value after the first spec", typ)
				}
				cur = vs.Values[0]
			} else if len(vs.Values) != 0 || cur == nil {
				die(vs.Pos(), "const spec values")
			}
			if vs.Type != nil && i != 0 {
				die(vs.Pos(), "const block %s: type after the first spec", typ)
			}
			out = append(out, constant{vs.Names[0].Name, evalConst(cur, int64(i))})
		}
		return out
	}
	die(token.NoPos, "const block of type %s not found", typ)
	return nil
}

// ---- functions ----

func findFunc(f *ast.File, name string) *ast.FuncDecl {
	var found *ast.FuncDecl
	for _, d := range f.Decls {
		if fd, ok := d.(*ast.FuncDecl); ok && fd.Name.Name == name {
			if found != nil {
				die(fd.Pos(), "function %s declared twice", name)
			}
			found = fd
		}
	}
	if found == nil || found.Body == nil {
		die(token.NoPos, "function %s not found", name)
	}
	return found
}

func wantStmt(s ast.Stmt, want string) {
	if got := ss(s); got != want {
		die(s.Pos(), "statement shape changed\n  have: %s\n  want: %s", got, want)
	}
}

func switchOn(s ast.Stmt, tag string) []*ast.CaseClause {
	sw, ok := s.(*ast.SwitchStmt)
	if !ok || sw.Init != nil {
		die(s.Pos(), "expected switch %s", tag)
	}
	have := ""
	if sw.Tag != nil {
		have = es(sw.Tag)
	}
	if have != tag {
		die(s.Pos(), "expected switch on %q, have %q", tag, have)
	}
	var out []*ast.CaseClause
	for _, c := range sw.Body.List {
		out = append(out, c.(*ast.CaseClause))
	}
	return out
}

var keyNames map[string]bool

func keyIdent(e ast.Expr) string {
	id, ok := e.(*ast.Ident)
	if !ok || !keyNames[id.Name] {
		die(e.Pos(), "expected a KeyCode constant, got %s", es(e))
	}
	return id.Name
}

type seen map[string]bool

func (s seen) add(pos token.Pos, k string) {
	if s[k] {
		die(pos, "duplicate case %s", k)
	}
	s[k] = true
}

func main() {
	repo := flag.String("repo", "/repo", "path of the termemu checkout")
	out := flag.String("out", ".", "output directory")
	flag.Parse()

	file, err := parser.ParseFile(fset, filepath.Join(*repo, "keys.go"), nil, 0)
	if err != nil {
		fmt.Fprintln(os.Stderr, "gen_keys:", err)
		os.Exit(1)
	}

	var b strings.Builder
	p := func(format string, a ...interface{}) { fmt.Fprintf(&b, format, a...) }
	p("(* GENERATED by tools/gen_keys from keys.go -- do not edit. *)\n")
	p("From Coq Require Import List ZArith String.\nFrom Termemu Require Import KeyKinds.\nImport ListNotations.\nOpen Scope Z_scope.\nOpen Scope string_scope.\n\n")

	// (a) constant blocks
	for _, typ := range []string{"KeyMod", "KeyEventType", "KeyboardEnhancement", "KeyCode"} {
		cs := constBlock(file, typ)
		p("(* const block %s *)\n", typ)
		for _, c := range cs {
			p("Definition %s : Z := %d.\n", c.name, c.val)
		}
		if typ == "KeyCode" {
			keyNames = map[string]bool{}
			p("Definition keycode_enum : list (string * Z) :=\n  [")
			for i, c := range cs {
				keyNames[c.name] = true
				if i > 0 {
					p(";\n   ")
				}
				p("(\"%s\", %d)", c.name, c.val)
			}
			p("].\n")
		}
		p("\n")
	}

	// (b) kittyFunctionalCode
	{
		fd := findFunc(file, "kittyFunctionalCode")
		if len(fd.Body.List) != 1 {
			die(fd.Pos(), "kittyFunctionalCode: expected a single switch")
		}
		p("(* kittyFunctionalCode *)\nDefinition kitty_functional_code : list (Z * Z) :=\n  [")
		sn := seen{}
		n := 0
		sawDefault := false
		for _, cc := range switchOn(fd.Body.List[0], "code") {
			if cc.List == nil {
				if len(cc.Body) != 1 {
					die(cc.Pos(), "default body")
				}
				wantStmt(cc.Body[0], "return 0, false")
				sawDefault = true
				continue
			}
			if len(cc.List) != 1 || len(cc.Body) != 1 {
				die(cc.Pos(), "kittyFunctionalCode case shape")
			}
			k := keyIdent(cc.List[0])
			sn.add(cc.Pos(), k)
			rs, ok := cc.Body[0].(*ast.ReturnStmt)
			if !ok || len(rs.Results) != 2 || es(rs.Results[1]) != "true" {
				die(cc.Pos(), "kittyFunctionalCode case body: %s", ss(cc.Body[0]))
			}
			if n > 0 {
				p(";\n   ")
			}
			n++
			p("(%s, %d)", k, intLit(rs.Results[0]))
		}
		if !sawDefault {
			die(fd.Pos(), "kittyFunctionalCode: no default")
		}
		p("].\n\n")
	}

	// (c) keypadEquivalent
	{
		fd := findFunc(file, "keypadEquivalent")
		if len(fd.Body.List) != 3 {
			die(fd.Pos(), "keypadEquivalent: expected 3 statements")
		}
		wantStmt(fd.Body.List[0], "mapped := ev")
		wantStmt(fd.Body.List[2], "return mapped, true")
		p("(* keypadEquivalent: key -> (new code, Some new rune | None = rune unchanged) *)\nDefinition keypad_equivalent : list (Z * (Z * option Z)) :=\n  [")
		sn := seen{}
		n := 0
		sawDefault := false
		for _, cc := range switchOn(fd.Body.List[1], "ev.Code") {
			if cc.List == nil {
				if len(cc.Body) != 1 {
					die(cc.Pos(), "default body")
				}
				wantStmt(cc.Body[0], "return KeyEvent{}, false")
				sawDefault = true
				continue
			}
			if len(cc.List) != 1 || len(cc.Body) != 1 {
				die(cc.Pos(), "keypadEquivalent case shape")
			}
			k := keyIdent(cc.List[0])
			sn.add(cc.Pos(), k)
			as, ok := cc.Body[0].(*ast.AssignStmt)
			if !ok || as.Tok != token.ASSIGN {
				die(cc.Pos(), "keypadEquivalent case body: %s", ss(cc.Body[0]))
			}
			if n > 0 {
				p(";\n   ")
			}
			n++
			switch esl(as.Lhs) {
			case "mapped.Code, mapped.Rune":
				if len(as.Rhs) != 2 {
					die(cc.Pos(), "assignment arity")
				}
				p("(%s, (%s, Some %d))", k, keyIdent(as.Rhs[0]), intLit(as.Rhs[1]))
			case "mapped.Code":
				if len(as.Rhs) != 1 {
					die(cc.Pos(), "assignment arity")
				}
				p("(%s, (%s, None))", k, keyIdent(as.Rhs[0]))
			default:
				die(cc.Pos(), "keypadEquivalent assigns %s", esl(as.Lhs))
			}
		}
		if !sawDefault {
			die(fd.Pos(), "keypadEquivalent: no default")
		}
		p("].\n\n")
	}

	// (d) isKeypadKey
	{
		fd := findFunc(file, "isKeypadKey")
		if len(fd.Body.List) != 1 {
			die(fd.Pos(), "isKeypadKey: expected a single switch")
		}
		ccs := switchOn(fd.Body.List[0], "code")
		if len(ccs) != 2 || ccs[0].List == nil || ccs[1].List != nil || len(ccs[0].Body) != 1 || len(ccs[1].Body) != 1 {
			die(fd.Pos(), "isKeypadKey: expected one case list and a default")
		}
		wantStmt(ccs[0].Body[0], "return true")
		wantStmt(ccs[1].Body[0], "return false")
		p("(* isKeypadKey *)\nDefinition is_keypad_key : list Z :=\n  [")
		sn := seen{}
		for i, e := range ccs[0].List {
			k := keyIdent(e)
			sn.add(e.Pos(), k)
			if i > 0 {
				p("; ")
			}
			p("%s", k)
		}
		p("].\n\n")
	}

	// (e1) encodeLegacyKey
	{
		fd := findFunc(file, "encodeLegacyKey")
		if len(fd.Body.List) != 2 {
			die(fd.Pos(), "encodeLegacyKey: expected prelude + switch")
		}
		wantStmt(fd.Body.List[0], "if isKeypadKey(ev.Code) { if mapped, ok := keypadEquivalent(ev); ok { return t.encodeLegacyKey(mapped) } }")
		type pat struct {
			re   *regexp.Regexp
			kind string
		}
		pats := []pat{
			{regexp.MustCompile(`^t\.encodeRuneKey\(ev\.Rune, ev\.Mod\)$`), "LRune"},
			{regexp.MustCompile(`^t\.encodeCursorKey\(('(?:[^'\\]|\\.)+'), ev\.Mod\)$`), "LCursor"},
			{regexp.MustCompile(`^t\.encodeHomeEndKey\(('(?:[^'\\]|\\.)+'), ev\.Mod\)$`), "LHomeEnd"},
			{regexp.MustCompile(`^encodeTildeKey\(([0-9]+), ev\.Mod\)$`), "LTilde"},
			{regexp.MustCompile(`^encodeFunctionKey\(('(?:[^'\\]|\\.)+'), ev\.Mod\)$`), "LFunction"},
			{regexp.MustCompile(`^t\.encodeBackspaceKey\(ev\.Mod\)$`), "LBackspace"},
			{regexp.MustCompile(`^t\.encodeTabKey\(ev\.Mod\)$`), "LTab"},
			{regexp.MustCompile(`^t\.encodeEnterKey\(ev\.Mod\)$`), "LEnter"},
			{regexp.MustCompile(`^t\.encodeEscapeKey\(ev\.Mod\)$`), "LEscape"},
		}
		p("(* encodeLegacyKey: switch ev.Code.  The default branch is\n   [if code, ok := kittyFunctionalCode(ev.Code); ok { CSI u with flags 0, no text }; return nil]. *)\nDefinition legacy_dispatch : list (Z * legacy_enc) :=\n  [")
		sn := seen{}
		n := 0
		sawDefault := false
		for _, cc := range switchOn(fd.Body.List[1], "ev.Code") {
			if cc.List == nil {
				if len(cc.Body) != 2 {
					die(cc.Pos(), "encodeLegacyKey default body")
				}
				wantStmt(cc.Body[0], `if code, ok := kittyFunctionalCode(ev.Code); ok { return kittyCSIu(kittyKeyField(code, ev, 0), kittyModField(ev.Mod, ev.Event, 0), "") }`)
				wantStmt(cc.Body[1], "return nil")
				sawDefault = true
				continue
			}
			if len(cc.List) != 1 || len(cc.Body) != 1 {
				die(cc.Pos(), "encodeLegacyKey case shape")
			}
			k := keyIdent(cc.List[0])
			sn.add(cc.Pos(), k)
			rs, ok := cc.Body[0].(*ast.ReturnStmt)
			if !ok || len(rs.Results) != 1 {
				die(cc.Pos(), "encodeLegacyKey case body: %s", ss(cc.Body[0]))
			}
			call, ok := rs.Results[0].(*ast.CallExpr)
			if !ok {
				die(cc.Pos(), "encodeLegacyKey case body: %s", ss(cc.Body[0]))
			}
			str := es(call)
			matched := false
			for _, pt := range pats {
				if m := pt.re.FindStringSubmatch(str); m != nil {
					if n > 0 {
						p(";\n   ")
					}
					n++
					if len(m) == 2 {
						p("(%s, %s %d)", k, pt.kind, intLit(call.Args[0]))
					} else {
						p("(%s, %s)", k, pt.kind)
					}
					matched = true
					break
				}
			}
			if !matched {
				die(cc.Pos(), "encodeLegacyKey: unknown encoder call %s", str)
			}
		}
		if !sawDefault {
			die(fd.Pos(), "encodeLegacyKey: no default")
		}
		p("].\n\n")
	}

	// (e2) encodeKittyKey
	{
		fd := findFunc(file, "encodeKittyKey")
		if len(fd.Body.List) != 3 {
			die(fd.Pos(), "encodeKittyKey: expected prelude + modField + switch")
		}
		wantStmt(fd.Body.List[0], "if isKeypadKey(ev.Code) && flags & int(KbdDisambiguate) == 0 { if mapped, ok := keypadEquivalent(ev); ok { return t.encodeKittyKey(mapped, flags) } }")
		wantStmt(fd.Body.List[1], "modField := kittyModField(ev.Mod, ev.Event, flags)")
		reCSI1 := regexp.MustCompile(`^return kittyCSI1\(('(?:[^'\\]|\\.)+'), modField\)$`)
		reTilde := regexp.MustCompile(`^return kittyCSITilde\(([0-9]+), modField\)$`)
		reCSIu := regexp.MustCompile(`^return kittyCSIu\(kittyKeyField\(([0-9]+), ev, flags\), modField, kittyTextField\(ev, flags\)\)$`)
		reGuard := regexp.MustCompile(`^flags & int\((Kbd[A-Za-z]+)\) != 0$`)
		kbd := map[string]bool{}
		for _, c := range constBlock(file, "KeyboardEnhancement") {
			kbd[c.name] = true
		}
		p("(* encodeKittyKey: switch ev.Code.  KCSIu code guard: emitted when (flags land guard) <> 0, else nil.\n   The default branch is [if code, ok := kittyFunctionalCode(ev.Code); ok { CSI u }; return nil]. *)\nDefinition kitty_dispatch : list (Z * kitty_enc) :=\n  [")
		sn := seen{}
		n := 0
		sawDefault := false
		for _, cc := range switchOn(fd.Body.List[2], "ev.Code") {
			if cc.List == nil {
				if len(cc.Body) != 2 {
					die(cc.Pos(), "encodeKittyKey default body")
				}
				wantStmt(cc.Body[0], "if code, ok := kittyFunctionalCode(ev.Code); ok { return kittyCSIu(kittyKeyField(code, ev, flags), modField, kittyTextField(ev, flags)) }")
				wantStmt(cc.Body[1], "return nil")
				sawDefault = true
				continue
			}
			if len(cc.List) != 1 {
				die(cc.Pos(), "encodeKittyKey case list")
			}
			k := keyIdent(cc.List[0])
			sn.add(cc.Pos(), k)
			if n > 0 {
				p(";\n   ")
			}
			n++
			switch len(cc.Body) {
			case 1:
				str := ss(cc.Body[0])
				rs, ok := cc.Body[0].(*ast.ReturnStmt)
				if !ok || len(rs.Results) != 1 {
					die(cc.Pos(), "encodeKittyKey case body: %s", str)
				}
				if str == "return t.encodeKittyRune(ev, flags)" {
					p("(%s, KRune)", k)
				} else if reCSI1.MatchString(str) {
					p("(%s, KCSI1 %d)", k, intLit(rs.Results[0].(*ast.CallExpr).Args[0]))
				} else if reTilde.MatchString(str) {
					p("(%s, KCSITilde %d)", k, intLit(rs.Results[0].(*ast.CallExpr).Args[0]))
				} else {
					die(cc.Pos(), "encodeKittyKey: unknown encoder call: %s", str)
				}
			case 2:
				ifs, ok := cc.Body[0].(*ast.IfStmt)
				if !ok || ifs.Init != nil || ifs.Else != nil || len(ifs.Body.List) != 1 {
					die(cc.Pos(), "encodeKittyKey guarded case: %s", ss(cc.Body[0]))
				}
				wantStmt(cc.Body[1], "return nil")
				m := reCSIu.FindStringSubmatch(ss(ifs.Body.List[0]))
				if m == nil {
					die(cc.Pos(), "encodeKittyKey guarded body: %s", ss(ifs.Body.List[0]))
				}
				// the guard is a disjunction of flag tests
				var terms []string
				var walk func(e ast.Expr)
				walk = func(e ast.Expr) {
					if be, ok := e.(*ast.BinaryExpr); ok && be.Op == token.LOR {
						walk(be.X)
						walk(be.Y)
						return
					}
					gm := reGuard.FindStringSubmatch(es(e))
					if gm == nil || !kbd[gm[1]] {
						die(e.Pos(), "encodeKittyKey guard term: %s", es(e))
					}
					terms = append(terms, gm[1])
				}
				walk(ifs.Cond)
				g := terms[0]
				for _, t := range terms[1:] {
					g = "Z.lor (" + g + ") " + t
				}
				p("(%s, KCSIu %s (%s))", k, m[1], g)
			default:
				die(cc.Pos(), "encodeKittyKey case with %d statements", len(cc.Body))
			}
		}
		if !sawDefault {
			die(fd.Pos(), "encodeKittyKey: no default")
		}
		p("].\n\n")
	}

	// (f) ctrlByte
	{
		fd := findFunc(file, "ctrlByte")
		if len(fd.Body.List) != 2 {
			die(fd.Pos(), "ctrlByte: expected two switches")
		}
		reCond := regexp.MustCompile(`^r >= ('(?:[^'\\]|\\.)+') && r <= ('(?:[^'\\]|\\.)+')$`)
		reRet := regexp.MustCompile(`^return byte\(r - ('(?:[^'\\]|\\.)+') \+ ([0-9]+)\), true$`)
		p("(* ctrlByte, first switch: lo <= r <= hi -> byte (r - sub + add) *)\nDefinition ctrl_byte_ranges : list (Z * Z * Z * Z) :=\n  [")
		for i, cc := range switchOn(fd.Body.List[0], "") {
			if len(cc.List) != 1 || len(cc.Body) != 1 {
				die(cc.Pos(), "ctrlByte range case shape")
			}
			c := reCond.FindStringSubmatch(es(cc.List[0]))
			r := reRet.FindStringSubmatch(ss(cc.Body[0]))
			if c == nil || r == nil {
				die(cc.Pos(), "ctrlByte range case: %s -> %s", es(cc.List[0]), ss(cc.Body[0]))
			}
			be := cc.List[0].(*ast.BinaryExpr)
			lo := intLit(be.X.(*ast.BinaryExpr).Y)
			hi := intLit(be.Y.(*ast.BinaryExpr).Y)
			sub := intLit(&ast.BasicLit{Kind: token.CHAR, Value: r[1]})
			add, _ := strconv.ParseInt(r[2], 10, 64)
			if hi-sub+add > 255 || lo-sub+add < 0 {
				die(cc.Pos(), "ctrlByte range leaves the byte range")
			}
			if i > 0 {
				p("; ")
			}
			p("(%d, %d, %d, %d)", lo, hi, sub, add)
		}
		p("].\n")
		p("(* ctrlByte, second switch: r -> byte *)\nDefinition ctrl_byte_exact : list (Z * Z) :=\n  [")
		n := 0
		sawDefault := false
		for _, cc := range switchOn(fd.Body.List[1], "r") {
			if cc.List == nil {
				if len(cc.Body) != 1 {
					die(cc.Pos(), "default body")
				}
				wantStmt(cc.Body[0], "return 0, false")
				sawDefault = true
				continue
			}
			if len(cc.List) != 1 || len(cc.Body) != 1 {
				die(cc.Pos(), "ctrlByte exact case shape")
			}
			rs, ok := cc.Body[0].(*ast.ReturnStmt)
			if !ok || len(rs.Results) != 2 || es(rs.Results[1]) != "true" {
				die(cc.Pos(), "ctrlByte exact case body: %s", ss(cc.Body[0]))
			}
			v := intLit(rs.Results[0])
			if v < 0 || v > 255 {
				die(cc.Pos(), "ctrlByte value out of byte range")
			}
			if n > 0 {
				p("; ")
			}
			n++
			p("(%d, %d)", intLit(cc.List[0]), v)
		}
		if !sawDefault {
			die(fd.Pos(), "ctrlByte: no default")
		}
		p("].\n\n")
	}

	// (g) fingerprints of the functions that are modelled by hand (FNV-1a 32 of
	// the canonical printing of the body): Proofs/KeysProofs.v pins them, so an
	// edit of one of these functions is noticed even when no table changes.
	{
		hand := []string{"encodeKey", "encodeKittyRune", "encodeRuneKey", "encodeCursorKey", "encodeHomeEndKey",
			"encodeBackspaceKey", "encodeTabKey", "encodeEnterKey", "encodeEscapeKey", "encodeTildeKey",
			"encodeFunctionKey", "encodeModifyOtherKeys", "kittyModParam", "kittyModField", "kittyKeyField",
			"kittyTextField", "kittyCSI1", "kittyCSITilde", "kittyCSIu", "xtermModParam", "normalizeEventType"}
		p("(* FNV-1a/32 fingerprints of the canonical printing of the hand-modelled function bodies *)\nDefinition hand_modelled_fingerprints : list (string * Z) :=\n  [")
		for i, name := range hand {
			fd := findFunc(file, name)
			h := uint32(2166136261)
			for _, c := range []byte(ss(fd.Body)) {
				h ^= uint32(c)
				h *= 16777619
			}
			if i > 0 {
				p(";\n   ")
			}
			p("(\"%s\", %d)", name, h)
		}
		p("].\n")
	}

	if err := os.MkdirAll(*out, 0o755); err != nil {
		fmt.Fprintln(os.Stderr, "gen_keys:", err)
		os.Exit(1)
	}
	if err := os.WriteFile(filepath.Join(*out, "Gen_KeyTables.v"), []byte(b.String()), 0o644); err != nil {
		fmt.Fprintln(os.Stderr, "gen_keys:", err)
		os.Exit(1)
	}

	spec := genSpec(filepath.Join(*repo, "keyboard-protocol.rst"))
	if err := os.WriteFile(filepath.Join(*out, "Gen_KittySpec.v"), []byte(spec), 0o644); err != nil {
		fmt.Fprintln(os.Stderr, "gen_keys:", err)
		os.Exit(1)
	}
}
