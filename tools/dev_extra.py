#!/usr/bin/env python3
"""dev helper: run one extra engine of a property alone:  tools/dev_extra.py C20 spanterm_engine [quick|thorough] [seed]"""
import sys, os, json
sys.path.insert(0, os.path.join(os.path.dirname(os.path.abspath(__file__)), "..", "lib"))
import core, check, props
pid, fn = sys.argv[1], sys.argv[2]
tier = sys.argv[3] if len(sys.argv) > 3 else "quick"
seed = int(sys.argv[4]) if len(sys.argv) > 4 else 1
st = core.build_all(None)
print("coq_ok", st["coq_ok"], "harness_ok", st.get("harness_ok"))
if not st["coq_ok"]:
    print(st["coq_log"][-3000:])
run = check.Run(pid, tier, seed)
getattr(props, fn)(run, tier, seed)
print(dict(run.stats))
for v in run.violations[:6]:
    print(v["what"], v["case"])
    print("  exp", str(v["expected"])[:400])
    print("  act", str(v["actual"])[:400])
    print("  ", check.human_case(v["case_text"])[:12])
# differences in the stored representation only (record 11 of the span-terminal engine)
for v in getattr(run, "corr_broken", [])[:6]:
    print("CORRESPONDENCE", v["what"], v["case"])
    print("  exp", str(v["expected"])[:400])
    print("  act", str(v["actual"])[:400])
    print("  ", check.human_case(v["case_text"])[:12])
print("violations", len(run.violations), "representation-only differences", len(getattr(run, "corr_broken", [])))
