#!/bin/bash
# tools/run_mutant.sh <seeded-id> <check> [<check> ...]
# Applies a seeded mutant to a scratch worktree of /repo HEAD (never to /repo itself while other work is going on),
# runs the named checks against that tree (VERIF_REPO), prints whether each raised an alarm, removes the worktree.
# Works from whatever copy of /verif the script lives in (so shards can run in parallel from `vp run` snapshots).
V=$(cd "$(dirname "$0")/.." && pwd)
id=$1; shift
WT=/tmp/mutrun-wt-$$
git -C /repo worktree remove --force $WT 2>/dev/null
git -C /repo worktree add --detach $WT HEAD >/dev/null 2>&1 || exit 2
( cd $WT && git apply $V/seeded/$id/patch.diff ) || { echo "$id: patch does not apply"; git -C /repo worktree remove --force $WT; exit 2; }
for c in "$@"; do
  out=$(cd $V && VERIF_REPO=$WT timeout 1800 bin/check $c quick 2>&1); rc=$?
  first=$(echo "$out" | grep -A1 '^VIOLATION' | head -2 | tr '\n' ' ' | cut -c1-260)
  echo "$id check=$c rc=$rc $first"
done
git -C /repo worktree remove --force $WT
# restore generated files / harness for the real tree
( cd $V && python3 -c "import sys; sys.path.insert(0,'lib'); import core; core.build_all(None)" >/dev/null 2>&1 )
