#!/bin/bash
# Function-level correspondence check of the span model against screen.go.
# Needs the hooks of hooks-to-add.go in the termemu package (REPO = a tree that has them),
# and the Coq tree (COQ) built with Model/Span.v and Model/SpanCase.v.
set -e
export GOFLAGS=-mod=mod GOPROXY=off GOSUMDB=off GOTOOLCHAIN=local
HERE=$(cd "$(dirname "$0")" && pwd)
REPO=${REPO:-/repo}; COQ=${COQ:-/verif/coq}; WORK=${WORK:-/tmp/span-check}; SEED=${SEED:-1}; LINES=${LINES:-150}
mkdir -p $WORK/h $WORK/e
cp $HERE/harness-span/main.go $WORK/h/ && cp $REPO/go.sum $WORK/h/go.sum
sed "s#=> /repo#=> $REPO#" $HERE/harness-span/go.mod > $WORK/h/go.mod
(cd $WORK/h && go build -tags verif -o hs .)
cp $HERE/engine-span/Extract.v $HERE/engine-span/driver.ml $WORK/e/
(cd $WORK/e && timeout 900 coqc -Q $COQ Termemu Extract.v && ocamlfind ocamlopt -O3 -w -a model.mli model.ml driver.ml -o drv)
$WORK/h/hs gen $SEED $LINES > $WORK/cases.txt
$WORK/h/hs run < $WORK/cases.txt > $WORK/impl.txt
$WORK/e/drv < $WORK/cases.txt > $WORK/model.txt
wc -l < $WORK/cases.txt
$WORK/h/hs compare $WORK/impl.txt $WORK/model.txt
