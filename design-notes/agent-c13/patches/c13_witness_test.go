package termemu

import (
	"bytes"
	"errors"
	"testing"
)

// scripted backend: each Write call consumes one script entry (n, err).
type c13Backend struct {
	out    []byte
	script []struct {
		n   int
		err error
	}
	calls int
}

func (b *c13Backend) Read(p []byte) (int, error) { select {} }
func (b *c13Backend) SetSize(w, h int) error     { return nil }
func (b *c13Backend) Write(p []byte) (int, error) {
	b.calls++
	if len(b.script) == 0 {
		b.out = append(b.out, p...)
		return len(p), nil
	}
	s := b.script[0]
	b.script = b.script[1:]
	n := s.n
	if n > len(p) {
		n = len(p)
	}
	b.out = append(b.out, p[:n]...)
	return n, s.err
}

func c13Send(t *testing.T, mode, enc int, b *c13Backend, btn MouseBtn, press bool, mods MouseFlag, x, y int) (out []byte, err error, panicked bool) {
	term := newTerminal(nil, b, TextReadModeRune)
	term.viewInts[VIMouseMode] = mode
	term.viewInts[VIMouseEncoding] = enc
	defer func() {
		if r := recover(); r != nil {
			panicked = true
			out = b.out
		}
	}()
	err = term.SendMouseRaw(btn, press, mods, x, y)
	return b.out, err, false
}

// D32: X10 write error must be returned, not panic.  witness: mode=4 enc=0 btn=0 press mods=0 x=1 y=1 writer=[(0,EIO)]
func TestC13_D32_X10WriteErrorReturned(t *testing.T) {
	b := &c13Backend{script: []struct {
		n   int
		err error
	}{{0, errors.New("EIO")}}}
	_, err, p := c13Send(t, MMPressReleaseMoveAll, MEX10, b, MBtn1, true, 0, 1, 1)
	if p {
		t.Fatalf("SendMouseRaw panicked on write error")
	}
	if err == nil {
		t.Fatalf("expected error")
	}
}

// D33: X10 report is exactly 6 bytes.  witness: mode=4 enc=0 btn=0 press mods=0 x=96 y=1
func TestC13_D33_X10SingleBytes(t *testing.T) {
	out, _, _ := c13Send(t, MMPressReleaseMoveAll, MEX10, &c13Backend{}, MBtn1, true, 0, 96, 1)
	want := []byte{0x1b, '[', 'M', 32, 128, 33}
	if !bytes.Equal(out, want) {
		t.Fatalf("x=96: got % x want % x", out, want)
	}
	// wheel+motion flags make the button byte >= 128
	out, _, _ = c13Send(t, MMPressReleaseMoveAll, MEX10, &c13Backend{}, MBtn1, true, MWheel|MMotion, 1, 1)
	want = []byte{0x1b, '[', 'M', 128, 33, 33}
	if !bytes.Equal(out, want) {
		t.Fatalf("wheel|motion: got % x want % x", out, want)
	}
	out, _, _ = c13Send(t, MMPressReleaseMoveAll, MEX10, &c13Backend{}, MBtn1, true, 0, 300, 224)
	want = []byte{0x1b, '[', 'M', 32, 255, 255}
	if !bytes.Equal(out, want) {
		t.Fatalf("clamp: got % x want % x", out, want)
	}
}

// D34: button-motion mode: motion with a button held passes even with no modifier, motion with no button is dropped
// whatever the modifiers.  witness A: mode=3 enc=2 btn=0 press mods=32 x=5 y=5 (dropped before: mods&3==0? no ->
// passes) ; witness B: mode=3 enc=2 btn=3 press mods=32 x=5 y=5 must write nothing.
func TestC13_D34_ButtonMotionFilter(t *testing.T) {
	out, _, _ := c13Send(t, MMPressReleaseMove, MESGR, &c13Backend{}, MRelease, true, MMotion, 5, 5)
	if len(out) != 0 {
		t.Fatalf("motion with no button held must be filtered in mode 1002, got %q", out)
	}
	out, _, _ = c13Send(t, MMPressReleaseMove, MESGR, &c13Backend{}, MBtn1, true, MMotion, 5, 5)
	if string(out) != "\x1b[<32;5;5M" {
		t.Fatalf("drag must be reported in mode 1002, got %q", out)
	}
	// plain release (no motion) must still be reported
	out, _, _ = c13Send(t, MMPressReleaseMove, MESGR, &c13Backend{}, MBtn1, false, 0, 5, 5)
	if string(out) != "\x1b[<0;5;5m" {
		t.Fatalf("release must be reported in mode 1002, got %q", out)
	}
}

// D35: press-only mode (DEC 9) reports button presses only.  witness: mode=1 enc=0 btn=0 press mods=32 x=1 y=1
func TestC13_D35_PressOnly(t *testing.T) {
	out, _, _ := c13Send(t, MMPress, MEX10, &c13Backend{}, MBtn1, true, MMotion, 1, 1)
	if len(out) != 0 {
		t.Fatalf("motion must be filtered in mode 9, got %q", out)
	}
	out, _, _ = c13Send(t, MMPress, MEX10, &c13Backend{}, MBtn1, true, MWheel, 1, 1)
	if len(out) != 0 {
		t.Fatalf("wheel must be filtered in mode 9, got %q", out)
	}
	out, _, _ = c13Send(t, MMPress, MEX10, &c13Backend{}, MBtn1, true, 0, 1, 1)
	if string(out) != "\x1b[M !!" {
		t.Fatalf("press must be reported in mode 9, got %q", out)
	}
}

// D36: UTF-8 coordinates beyond 2015 are clamped (as xterm does) so that each is at most a two-byte sequence.
// witness: mode=4 enc=1 btn=0 press mods=0 x=55264 (32+x = 0xD800) y=1
func TestC13_D36_UTF8Clamp(t *testing.T) {
	out, _, _ := c13Send(t, MMPressReleaseMoveAll, MEUTF8, &c13Backend{}, MBtn1, true, 0, 0xD800-32, 1)
	want := []byte{0x1b, '[', 'M', 32, 0xdf, 0xbf, 33}
	if !bytes.Equal(out, want) {
		t.Fatalf("got % x want % x", out, want)
	}
}
