#!/usr/bin/env python3
"""Mutation self-test of translator + checker (supporting evidence, not proof).

For each mutant of the repaired tree: copy the Go sources, apply one textual
mutation that breaks the lock discipline (or uses an unsupported shape),
regenerate the call graph, and run the Coq checker.  Every mutant must be
REJECTED (check = false).  The unmutated tree must be ACCEPTED.

usage: mutants.py GO_TREE COQ_DIR GEN_BINARY
"""
import os, shutil, subprocess, sys, tempfile

tree, coqdir, gen = sys.argv[1:4]
env = dict(os.environ, GOFLAGS="-mod=mod", GOPROXY="off", GOSUMDB="off", GOTOOLCHAIN="local")

MUTANTS = [
 ("none (control, must be accepted)", None, None, None, True),
 ("M1 Resize mutates both screens without the lock (D37 regression)", "terminal.go",
  "\tt.WithLock(func() {\n\t\tt.mainScreen.setSize(w, h)\n\t\tt.altScreen.setSize(w, h)\n\t})\n",
  "\tt.mainScreen.setSize(w, h)\n\tt.altScreen.setSize(w, h)\n", False),
 ("M2 Bell callback outside the lock", "escapes.go",
  "\t\tt.WithLock(func() {\n\t\t\tt.frontend.Bell()\n\t\t})\n", "\t\tt.frontend.Bell()\n", False),
 ("M3 method value of Unlock (unsupported shape)", "terminal.go",
  "\tt.Lock()\n\tdefer t.Unlock()\n\tt.frontend = f\n", "\tt.Lock()\n\tu := t.Unlock\n\tdefer u()\n\tt.frontend = f\n", False),
 ("M4 mutex passed as an argument (unsupported shape)", "tty_frontend.go",
  "func (t *TTYFrontend) Focus() {\n\tt.mu.Lock()\n", "func lockIt(m *sync.Mutex) { m.Lock() }\n\nfunc (t *TTYFrontend) Focus() {\n\tlockIt(&t.mu)\n", False),
 ("M5 Detach takes the terminal lock while holding mu (lock order)", "tty_frontend.go",
  "\tt.attached = false\n\tout := t.out\n", "\tt.attached = false\n\tif t.term != nil {\n\t\tt.term.WithLock(func() {})\n\t}\n\tout := t.out\n", False),
 ("M6 SetFrontend calls Resize while holding the lock (self-deadlock)", "terminal.go",
  "\tt.mainScreen.SetFrontend(f)\n", "\tt.mainScreen.SetFrontend(f)\n\t_ = t.Resize(80, 24)\n", False),
 ("M7 goroutine spawned from Resize that is not a checked entry", "terminal.go",
  "\tif t.backend == nil {\n\t\treturn nil\n\t}\n\n\treturn t.backend.SetSize(w, h)\n",
  "\tgo func() {\n\t\tt.mainScreen.setSize(w, h)\n\t}()\n\tif t.backend == nil {\n\t\treturn nil\n\t}\n\n\treturn t.backend.SetSize(w, h)\n", False),
 ("M8 early return between Lock and Unlock (lock leak)", "terminal.go",
  "\tmouseEncoding := t.viewInts[VIMouseEncoding]\n\tt.Unlock()\n", "\tmouseEncoding := t.viewInts[VIMouseEncoding]\n\tif x < 0 {\n\t\treturn nil\n\t}\n\tt.Unlock()\n", False),
 ("M9 SendKey encodes without the lock (D37 regression)", "keys.go",
  "\tt.WithLock(func() {\n\t\tseq = t.encodeKey(ev)\n\t})\n", "\tseq = t.encodeKey(ev)\n", False),
 ("M10 plain-text write of the read loop outside the lock", "escapes.go",
  "\t\t\tt.WithLock(func() {\n\t\t\t\tbw.writeString(data, width, merge, t.textReadMode)\n\t\t\t})\n", "\t\t\tbw.writeString(data, width, merge, t.textReadMode)\n", False),
 ("M11 printable read moved inside the lock (block under MTerm outside the exception)", "escapes.go",
  "\tif useBytes {\n\t\tdata, width, merge, err := gr.ReadPrintableBytes(maxWidth)\n",
  "\tif useBytes {\n\t\tvar data string\n\t\tvar width int\n\t\tvar merge bool\n\t\tvar err error\n\t\tt.WithLock(func() {\n\t\t\tdata, width, merge, err = gr.ReadPrintableBytes(maxWidth)\n\t\t})\n", False),
]

CHECK_V = """From Coq Require Import List String.
From Termemu Require Import Conc ConcSpec.
Require Import Mut.
Goal check (with_client Mut.prog) c15_exceptions c15_entries = %s.
Proof. vm_compute. reflexivity. Qed.
"""

bad = 0
for name, fname, old, new, accept in MUTANTS:
    d = tempfile.mkdtemp(prefix="mut-")
    try:
        src = os.path.join(d, "src"); os.mkdir(src)
        for f in os.listdir(tree):
            if f.endswith(".go") or f in ("go.mod", "go.sum"):
                shutil.copy(os.path.join(tree, f), src)
        if fname:
            p = os.path.join(src, fname); s = open(p).read()
            if s.count(old) != 1:
                print("SKIP  %s: mutation site not found exactly once" % name); bad += 1; continue
            open(p, "w").write(s.replace(old, new))
        r = subprocess.run([gen, "-dir", src, "-o", os.path.join(d, "Mut.v")], env=env, capture_output=True, text=True)
        if r.returncode != 0:
            print("ERROR %s: translator failed: %s" % (name, r.stderr.strip()[-300:])); bad += 1; continue
        note = [l.strip() for l in r.stderr.splitlines() if "unsupported:" in l]
        r1 = subprocess.run(["coqc", "-Q", coqdir, "Termemu", "-R", d, "", "Mut.v"], cwd=d, capture_output=True, text=True)
        if r1.returncode != 0:
            print("ERROR %s: generated file does not compile: %s" % (name, (r1.stdout + r1.stderr)[-300:])); bad += 1; continue
        verdict = None
        for want in ("true", "false"):
            open(os.path.join(d, "Chk.v"), "w").write(CHECK_V % want)
            r2 = subprocess.run(["coqc", "-Q", coqdir, "Termemu", "-R", d, "", "Chk.v"], cwd=d, capture_output=True, text=True)
            if r2.returncode == 0:
                verdict = (want == "true")
                break
        ok = (verdict == accept)
        if not ok:
            bad += 1
        print("%s %s: checker %s%s" % ("ok   " if ok else "FAIL ", name,
              {True: "accepts", False: "rejects", None: "?"}[verdict],
              (" [" + "; ".join(note) + "]") if note else ""))
    finally:
        shutil.rmtree(d, ignore_errors=True)
sys.exit(1 if bad else 0)
