package termemu

import "testing"

// Witnesses for the C12 repairs: each test fails before its patch and passes after.

func c12Encode(flags int, ev KeyEvent) string {
	_, t1, _ := MakeTerminalWithMock(TextReadModeRune)
	t1.keyboardMain.flags = flags
	return string(t1.encodeKey(ev))
}

// D30: a release of `a` in legacy mode must send nothing (it sends "a").
func TestC12_D30_ReleaseSilentWithoutReportEvents(t *testing.T) {
	if out := c12Encode(0, KeyEvent{Code: KeyRune, Rune: 'a', Event: KeyRelease}); out != "" {
		t.Fatalf("release without report-events sent %q", out)
	}
	if out := c12Encode(int(KbdDisambiguate|KbdReportEvents), KeyEvent{Code: KeyEnter, Event: KeyRelease}); out != "" {
		t.Fatalf("Enter release without report-all-keys sent %q", out)
	}
	if out := c12Encode(int(KbdReportEvents), KeyEvent{Code: KeyUp, Event: KeyRelease}); out != "\x1b[1;1:3A" {
		t.Fatalf("reported release changed: %q", out)
	}
}

// D31a: F3 in Kitty mode is CSI 13 ~ (CSI R is the cursor position report).
func TestC12_D31a_KittyF3(t *testing.T) {
	if out := c12Encode(int(KbdDisambiguate), KeyEvent{Code: KeyF3, Mod: ModShift}); out != "\x1b[13;2~" {
		t.Fatalf("F3: %q", out)
	}
}

// D31b: KP_BEGIN in Kitty mode is CSI 1 E.
func TestC12_D31b_KittyKPBegin(t *testing.T) {
	if out := c12Encode(int(KbdDisambiguate), KeyEvent{Code: KeyKPBegin, Mod: ModCtrl}); out != "\x1b[1;5E" {
		t.Fatalf("KP_BEGIN: %q", out)
	}
}
