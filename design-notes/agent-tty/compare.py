#!/usr/bin/env python3
"""compare.py real.txt model.txt : per-step verbatim comparison of the bytes the
real TTYFrontend wrote (200 lines) with the model's 200 lines; 201 lines of the
robust mode are summed."""
import sys
def load(p):
    cases=[];cur=None
    for l in open(p):
        l=l.rstrip('\n')
        if l.startswith('#'):
            cur=[l,[],[]];cases.append(cur)
        elif l.startswith('200'):
            cur[1].append(l)
        elif l.startswith('201'):
            cur[2].append([int(x) for x in l.split()[1:]])
    return cases
real=load(sys.argv[1]); mod=load(sys.argv[2])
assert len(real)==len(mod),(len(real),len(mod))
stats={}
shown=0
for r,m in zip(real,mod):
    assert r[0]==m[0],(r[0],m[0])
    kind=r[0].split('-')[1]
    s=stats.setdefault(kind,dict(steps=0,eq=0,cases=0,cases_eq=0,rows_ok=0,rows_bad=0,cutsteps=0,neq_cut=0))
    s['cases']+=1
    alleq=len(r[1])==len(m[1])
    for i,(a,b) in enumerate(zip(r[1],m[1])):
        s['steps']+=1
        cut = m[2][i][2] if i < len(m[2]) else 0
        if m[2] and i < len(m[2]):
            s['rows_ok']+=m[2][i][0]; s['rows_bad']+=m[2][i][1]; s['cutsteps']+= 1 if cut else 0
        if a==b: s['eq']+=1
        else:
            alleq=False
            if cut: s['neq_cut']+=1
            if shown<int(sys.argv[3]) if len(sys.argv)>3 else shown<5:
                shown+=1
                f=lambda l: bytes(int(x) for x in l.split()[1:])
                print('DIFF',r[0],'step',i,'\n  real ',f(a),'\n  model',f(b))
    if alleq: s['cases_eq']+=1
for k,s in sorted(stats.items()):
    print(k,' '.join('%s=%d'%kv for kv in s.items()))
