package termemu

import (
	"bytes"
	"strings"
	"testing"
)

// witness DT3: Attach shows the cursor of an application that has hidden it
func TestWitnessDT3(t *testing.T) {
	var out bytes.Buffer
	fe := NewTTYFrontend(nil, &out)
	term := newTerminal(fe, NewNoPTYBackend(bytes.NewReader(nil), &bytes.Buffer{}), TextReadModeRune)
	fe.SetTerminal(term)
	term.Resize(10, 2)
	if err := term.testFeedTerminalInputFromBackend([]byte("ab\x1b[?25l"), TextReadModeRune); err != nil {
		t.Fatal(err)
	}
	out.Reset()
	fe.Attach(Region{X: 0, Y: 0, X2: 10, Y2: 2})
	if strings.Contains(out.String(), ansiCursorShow) {
		t.Fatalf("Attach wrote show-cursor although the application hid the cursor: %q", out.String())
	}
}
