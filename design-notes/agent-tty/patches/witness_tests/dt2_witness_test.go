package termemu

import (
	"bytes"
	"testing"
)

// witness DT2: a run of cells that start with the same rune loses merged combining marks
func TestWitnessDT2(t *testing.T) {
	term := newTerminal(&EmptyFrontend{}, NewNoPTYBackend(bytes.NewReader(nil), &bytes.Buffer{}), TextReadModeGrapheme)
	term.mainScreen = newGridScreen(term.frontend)
	term.Resize(10, 2)
	if err := term.testFeedTerminalInputFromBackend([]byte("e\xcc\x81\x1b[1me\xcc\x81e"), TextReadModeGrapheme); err != nil {
		t.Fatal(err)
	}
	if got := term.StyledLine(2, 2, 0).PlainTextString(); got != "ée" {
		t.Fatalf("StyledLine(2,2,0) = %+q, want %+q", got, "ée")
	}
}
