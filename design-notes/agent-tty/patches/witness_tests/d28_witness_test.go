package termemu

import (
	"bytes"
	"testing"
)

func probeInner(t *testing.T, grid bool, mode TextReadMode, w, h int) (*terminal, *TTYFrontend, *bytes.Buffer) {
	var out bytes.Buffer
	fe := NewTTYFrontend(nil, &out)
	inner := newTerminal(fe, NewNoPTYBackend(bytes.NewReader(nil), &bytes.Buffer{}), mode)
	if grid {
		inner.mainScreen = newGridScreen(inner.frontend)
		inner.altScreen = newGridScreen(inner.frontend)
	}
	fe.SetTerminal(inner)
	inner.Resize(w, h)
	return inner, fe, &out
}

// D28 witness
func TestWitnessD28(t *testing.T) {
	inner, fe, out := probeInner(t, false, TextReadModeRune, 20, 4)
	fe.Attach(Region{X: 0, Y: 0, X2: 20, Y2: 4})
	fe.Detach()
	out.Reset()
	if err := inner.testFeedTerminalInputFromBackend([]byte("ab\x1b[2;2H\x1b[?25l\x1b[?25h"), TextReadModeRune); err != nil {
		t.Fatal(err)
	}
	fe.Focus()
	if out.Len() != 0 {
		t.Fatalf("detached frontend wrote %q", out.String())
	}
}

