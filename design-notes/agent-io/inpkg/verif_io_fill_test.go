//go:build verif

package termemu

// Kind-2 cases of the C16 correspondence check: one fill() on a hand-built
// reader (any capacity, any start <= end <= cap), which only code inside the
// package can set up.  Copy this file into a checkout of the library and run
//   IO_CASES=cases-fill.txt IO_OUT=impl-fill.txt go test -tags verif -run TestVerifIoFill .
// Case and answer formats: coq/Model/IoCase.v.

import (
	"bufio"
	"fmt"
	"io"
	"os"
	"strconv"
	"strings"
	"testing"
)

type verifIoSrc struct {
	b    []byte
	err  bool
	done bool
}

func (s *verifIoSrc) Read(p []byte) (int, error) {
	if s.done {
		return 0, io.EOF
	}
	n := copy(p, s.b)
	s.b = s.b[n:]
	if len(s.b) == 0 {
		s.done = true
		if s.err {
			return n, io.ErrUnexpectedEOF
		}
	}
	return n, nil
}

func TestVerifIoFill(t *testing.T) {
	in, out := os.Getenv("IO_CASES"), os.Getenv("IO_OUT")
	if in == "" || out == "" {
		t.Skip("IO_CASES / IO_OUT not set")
	}
	fi, err := os.Open(in)
	if err != nil {
		t.Fatal(err)
	}
	defer fi.Close()
	fo, err := os.Create(out)
	if err != nil {
		t.Fatal(err)
	}
	defer fo.Close()
	w := bufio.NewWriter(fo)
	defer w.Flush()
	sc := bufio.NewScanner(fi)
	sc.Buffer(make([]byte, 1<<20), 1<<26)
	for sc.Scan() {
		line := strings.TrimSpace(sc.Text())
		if line == "" || line[0] == '#' {
			continue
		}
		var f []int
		for _, x := range strings.Fields(line) {
			v, _ := strconv.Atoi(x)
			f = append(f, v)
		}
		id, start, end, ncap := f[1], f[3], f[4], f[5]
		var data []byte
		if ncap > 0 {
			data = make([]byte, ncap)
			for i := range data {
				data[i] = byte(f[6+i])
			}
		}
		rest := f[6+ncap:]
		src := &verifIoSrc{err: rest[0] != 0}
		for _, v := range rest[2 : 2+rest[1]] {
			src.b = append(src.b, byte(v))
		}
		r := &GraphemeReader{src: src, data: data, start: start, end: end, state: -1}
		e := 0
		if r.fill() != nil {
			e = 1
		}
		fmt.Fprintf(w, "2 %d %d %d %d %d %d", id, e, r.start, r.end, len(r.data), len(src.b))
		for _, d := range r.data {
			fmt.Fprintf(w, " %d", d)
		}
		w.WriteByte('\n')
	}
}
