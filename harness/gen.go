package main

import (
	"bufio"
	"fmt"
	"io"
	"sort"
	"strings"
	"unicode/utf8"

	"github.com/ricochet1k/termemu"
)

// SplitMix64: every random choice of a run derives from one seed.
type rng struct{ s uint64 }

func (r *rng) next() uint64 {
	r.s += 0x9e3779b97f4a7c15
	z := r.s
	z = (z ^ (z >> 30)) * 0xbf58476d1ce4e5b9
	z = (z ^ (z >> 27)) * 0x94d049bb133111eb
	return z ^ (z >> 31)
}
func (r *rng) n(k int) int {
	if k <= 0 {
		return 0
	}
	return int(r.next() % uint64(k))
}
func (r *rng) chance(num, den int) bool { return r.n(den) < num }
func (r *rng) pick(xs ...string) string { return xs[r.n(len(xs))] }

type genOp struct {
	kind  int // 110 feed, 111 resize
	data  []byte
	a, b  int
	label int // item kind, for attribution
}

type genCase struct {
	mask       int
	id         string
	mode, grid int
	w, h       int
	ops        []genOp
}

var wideRunes = []string{"中", "日", "語", "😀", "🐹"}
var narrowMB = []string{"é", "ñ", "ß", "λ", "Ж", "€"}

// parameter classes relative to an edge value
func (r *rng) param(edge int) string {
	switch r.n(12) {
	case 0:
		return ""
	case 1:
		return "0"
	case 2, 3:
		return "1"
	case 4:
		return fmt.Sprint(edge - 1)
	case 5:
		return fmt.Sprint(edge)
	case 6:
		return fmt.Sprint(edge + 1)
	case 7:
		return "65535"
	case 8:
		// beyond int32, at and beyond int64 and uint64 (values that would wrap to -1, 0, 1, 2, edge)
		return r.pick("2147483648", "9223372036854775807", "9223372036854775808", "18446744073709551615", "18446744073709551616",
			"18446744073709551617", "18446744073709551618", fmt.Sprintf("1844674407370955%d", 1616+edge), "99999999999999999999999")
	default:
		if edge < 1 {
			edge = 1
		}
		return fmt.Sprint(1 + r.n(edge))
	}
}

func (r *rng) smallParam(edge int) string {
	if r.chance(1, 6) {
		return ""
	}
	if edge < 1 {
		edge = 1
	}
	return fmt.Sprint(r.n(edge + 2))
}

// pieces of extended grapheme clusters: whole clusters, and marks, joiners, selectors and
// regional indicators on their own (as they arrive when a sequence or a read separates them from their base)
var clusterBits = []string{"e\u0301", "a\u0308\u0323", "\U0001f468\u200d\U0001f469\u200d\U0001f467", "\U0001f469\U0001f3fd",
	"\U0001f1fa\U0001f1f8", "\u263a\ufe0f", "1\ufe0f\u20e3", "\u1100\u1161\u11a8", "\u0e01\u0e33",
	"\u0301", "\u0308", "\u200d", "\ufe0f", "\ufe0e", "\U0001f1fa", "\U0001f3fd", "\u20e3", "\u0e33", "\u1161", "\u200d\U0001f467",
	"\u4e16\u0301", "\U0001f439\u200d", "\u0300\u0301\u0302"}

// clusterText: when set, text also contains the pieces above (profiles for grapheme mode)
var clusterText bool

func (r *rng) text(wide bool, maxLen int) string {
	n := 1 + r.n(maxLen)
	s := ""
	for i := 0; i < n; i++ {
		switch {
		case clusterText && r.chance(1, 4):
			s += clusterBits[r.n(len(clusterBits))]
		case wide && r.chance(1, 4):
			s += wideRunes[r.n(len(wideRunes))]
		case r.chance(1, 10):
			s += narrowMB[r.n(len(narrowMB))]
		default:
			s += string(rune('a' + r.n(26)))
		}
	}
	return s
}

// oscPayload: mostly short, sometimes longer than any buffer an implementation might cap it with
func (r *rng) oscPayload(wide bool) string {
	if r.chance(1, 6) {
		// payloads whose first or only bytes are the bytes the terminator tests look at (backslash, ESC, the
		// 8-bit ST inside a character, BEL look-alikes), and empty payloads (seeded change C01-m9)
		return r.pick("\\", "\\host\\share", "\\", "", "\x1b", "\\\x1b", "\x1b\x1b", ";", ";;", "\\;x", "\xc2", "\\\\") + r.pick("", "", r.text(wide, 4))
	}
	if r.chance(1, 10) {
		return strings.Repeat(r.text(wide, 12), 40+r.n(300))
	}
	return r.text(wide, 6)
}

func (r *rng) sgr() string {
	n := 1 + r.n(4)
	s := "\x1b["
	for i := 0; i < n; i++ {
		if i > 0 {
			s += ";"
		}
		switch r.n(14) {
		case 0:
			s += "0"
		case 1:
			s += ""
		case 2:
			s += fmt.Sprint(1 + r.n(9))
		case 3:
			s += r.pick("21", "22", "23", "24", "25", "27", "28", "29", "51", "52", "53", "54", "55")
		case 4:
			s += fmt.Sprint(30 + r.n(8))
		case 5:
			s += fmt.Sprint(40 + r.n(8))
		case 6:
			s += fmt.Sprint(90 + r.n(8))
		case 7:
			s += fmt.Sprint(100 + r.n(8))
		case 8:
			s += r.pick("39", "49")
		case 9:
			s += fmt.Sprintf("%s;5;%d", r.pick("38", "48"), r.n(256))
		case 10:
			if r.chance(1, 3) {
				// RGB values whose 24 bits coincide with the internal encodings of the default colour (0x100),
				// the bright colours (0x200..0x207) and the indexed colours (0..255): only the type bit tells them apart
				s += fmt.Sprintf("%s;2;0;%d;%d", r.pick("38", "48"), r.n(3), []int{0, 0, 1, 2, 5, 7, 255}[r.n(7)])
			} else {
				s += fmt.Sprintf("%s;2;%d;%d;%d", r.pick("38", "48"), r.n(256), r.n(256), r.n(256))
			}
		case 11:
			s += r.pick("38", "48", "38;5", "48;2", "38;2;1", "48;2;1;2", "38;9;1")
		default:
			s += fmt.Sprint(r.n(256))
		}
	}
	return s + "m"
}

// item kinds (attribution of an operation to the property it exercises)
const (
	kText    = 1
	kC0Move  = 2
	kCsiMove = 3
	kErase   = 4
	kScroll  = 5
	kSgr     = 6
	kMode    = 7
	kQuery   = 8
	kKbd     = 9
	kString  = 10 // OSC, DCS, ESC intermediates, unsupported CSI
	kResize  = 11
	kHostile = 12
	kOtherC0 = 13
	kMargins = 14
	kAltScr  = 15
	kCount   = 16
)

type profile struct {
	wide     bool
	cutAny   bool // cut chunks anywhere (inside sequences)
	step     bool // one item per feed, for step-mode comparison
	prefill  bool // start with text on the screen
	clusters bool // text with pieces of extended grapheme clusters (for grapheme mode; not modelled)
	minBytes int  // keep adding items until the stream is at least this long (reads larger than the 4096-byte buffer)
	maxItems int
	mask     int // observation mask written into the case header
	weights  [kCount]int
}

func (r *rng) pickKind(p profile) int {
	total := 0
	for _, w := range p.weights {
		total += w
	}
	k := r.n(total)
	for i, w := range p.weights {
		if k < w {
			return i
		}
		k -= w
	}
	return kText
}

func (r *rng) item(p profile, w, h int) (int, string) {
	kind := r.pickKind(p)
	switch kind {
	case kText:
		return kind, r.text(p.wide, 2*w)
	case kC0Move:
		return kind, r.pick("\n", "\r", "\r\n", "\b", "\t", "\x0c", "\x7f", "\x1bD", "\x1bM", "\n", "\x1bD", "\x1bM")
	case kOtherC0:
		return kind, r.pick("\x07", "\x00", "\x0b", "\x05", "\x01", "\x1a", "\x0e", "\x0f")
	case kCsiMove:
		if r.chance(1, 14) {
			// save, move, a round trip through the other buffer, move, restore: the slot of CSI s / CSI u is per buffer
			// and nothing but CSI s writes it
			mv := func() string { return fmt.Sprintf("\x1b[%d;%dH", 1+r.n(h), 1+r.n(w)) }
			s := "\x1b[s" + mv() + r.pick("\x1b[?1049h", "\x1b[?1049h", "\x1b[?1049l")
			if r.chance(1, 2) {
				s += mv()
			}
			return kind, s + r.pick("\x1b[?1049l", "\x1b[?1049l", "\x1b[?1049h") + mv() + "\x1b[u"
		}
		if r.chance(1, 7) {
			// park the cursor (and often the saved cursor) near the far corner: what a later shrink has to bring back in
			s := fmt.Sprintf("\x1b[%d;%dH", maxInt(1, h-r.n(2)), maxInt(1, w-r.n(2)))
			if r.chance(2, 3) {
				s += "\x1b[s"
			}
			if r.chance(1, 2) {
				s += fmt.Sprintf("\x1b[%d;%dH", 1+r.n(h), 1+r.n(w))
			}
			return kind, s
		}
		switch r.n(9) {
		case 0:
			return kind, "\x1b[" + r.param(h) + "A"
		case 1:
			return kind, "\x1b[" + r.param(h) + "B"
		case 2:
			return kind, "\x1b[" + r.param(w) + "C"
		case 3:
			return kind, "\x1b[" + r.param(w) + "D"
		case 4:
			return kind, "\x1b[" + r.param(w) + "G"
		case 5:
			return kind, "\x1b[" + r.param(h) + "d"
		case 6:
			return kind, "\x1b[" + r.smallParam(h) + ";" + r.smallParam(w) + r.pick("H", "f")
		case 7:
			return kind, r.pick("\x1b[s", "\x1b[u")
		default:
			return kind, "\x1b[" + r.param(h) + ";" + r.param(w) + "H"
		}
	case kErase:
		switch r.n(4) {
		case 0:
			return kind, "\x1b[" + r.pick("", "0", "1", "2", "3") + "J"
		case 1:
			return kind, "\x1b[" + r.pick("", "0", "1", "2", "3") + "K"
		case 2:
			return kind, "\x1b[" + r.param(w) + "X"
		default:
			return kind, "\x1b[" + r.param(w) + "P"
		}
	case kScroll:
		switch r.n(4) {
		case 0:
			return kind, "\x1b[" + r.param(h) + "S"
		case 1:
			return kind, "\x1b[" + r.param(h) + "T"
		case 2:
			return kind, "\x1b[" + r.param(h) + "L"
		default:
			return kind, "\x1b[" + r.param(h) + "M"
		}
	case kMargins:
		if r.chance(1, 4) {
			return kind, "\x1b[r"
		}
		if r.chance(1, 5) {
			return kind, "\x1b[" + r.param(h) + ";" + r.param(h) + "r"
		}
		return kind, "\x1b[" + r.smallParam(h) + ";" + r.smallParam(h) + "r"
	case kSgr:
		return kind, r.sgr()
	case kMode:
		n := 1
		if r.chance(1, 4) {
			n = 2 + r.n(3)
		}
		s := "\x1b[?"
		for i := 0; i < n; i++ {
			if i > 0 {
				s += ";"
			}
			s += r.pick("1", "7", "9", "12", "25", "1000", "1002", "1003", "1004", "1005", "1006", "1015", "2004", "7", "7", "1034", "3")
		}
		return kind, s + r.pick("h", "l")
	case kAltScr:
		if r.chance(1, 3) {
			// the screen switch inside a parameter list, repeated or mixed with other modes:
			// every parameter is applied in order against the state the previous one left
			n := 2 + r.n(3)
			s := "\x1b[?"
			for i := 0; i < n; i++ {
				if i > 0 {
					s += ";"
				}
				s += r.pick("1049", "1049", "1049", "25", "7", "1000", "47", "1047", "1048", "")
			}
			return kind, s + r.pick("h", "l")
		}
		if r.chance(1, 5) {
			// a round trip with keyboard state left behind on the alternate screen and asked for on the next visit:
			// enter, set and push flags, leave, (query on main), enter again, query, pop, query
			f1, f2 := 1+r.n(31), 1+r.n(31)
			return kind, fmt.Sprintf("\x1b[?1049h\x1b[=%du\x1b[>%du\x1b[?1049l%s\x1b[?1049h\x1b[?u\x1b[<u\x1b[?u%s", f1, f2,
				r.pick("", "\x1b[?u", "x"), r.pick("", "\x1b[?1049l\x1b[?u"))
		}
		return kind, "\x1b[?1049" + r.pick("h", "l")
	case kQuery:
		if r.chance(1, 3) {
			// queries with several, empty or unusual parameters: only the first parameter selects the report
			s := "\x1b[" + r.pick("", "", "", ">", "?")
			np := 1 + r.n(3)
			for i := 0; i < np; i++ {
				if i > 0 {
					s += ";"
				}
				s += r.pick("", "0", "1", "5", "6", "5", "6")
			}
			return kind, s + r.pick("n", "n", "c", "u")
		}
		if r.chance(1, 5) {
			// not queries: the same finals behind an intermediate byte, a sub-parameter or a late private marker
			return kind, r.pick("\x1b[18446744073709551621n", "\x1b[18446744073709551622n", "\x1b[18446744073709551616c", "\x1b[9223372036854775813n", "\x1b[>18446744073709551616c", "\x1b[36893488147419103238n",
				"\x1b[6 n", "\x1b[5!n", "\x1b[6:1n", "\x1b[0$c", "\x1b[>0 c", "\x1b[?$u", "\x1b[6\"n", "\x1b[5;?n", "\x1b[ c", "\x1b[?1$u", "\x1b[6#n")
		}
		return kind, r.pick("\x1b[c", "\x1b[0c", "\x1b[>c", "\x1b[5n", "\x1b[6n", "\x1b[?u", "\x1b[1c", "\x1b[>0c", "\x1b[6n", "\x1b[n", "\x1b[7n")
	case kKbd:
		if r.chance(1, 6) {
			// a burst of pushes with distinct flags: several of these exceed the 32-entry limit
			s := ""
			n := 12 + r.n(30)
			for i := 0; i < n; i++ {
				s += fmt.Sprintf("\x1b[>%du", 1+r.n(31))
			}
			if r.chance(1, 2) {
				// ... popped again around the 32-entry limit, then queried
				s += "\x1b[<" + r.pick("31", "32", "33", "34", fmt.Sprint(n), fmt.Sprint(n-1)) + "u\x1b[?u"
			}
			return kind, s
		}
		switch r.n(5) {
		case 0:
			return kind, fmt.Sprintf("\x1b[=%d;%du", r.n(32), r.n(5))
		case 1:
			return kind, fmt.Sprintf("\x1b[>%su", r.pick("", "0", "1", "5", "31", "3", "17"))
		case 2:
			return kind, "\x1b[<" + r.pick("", "1", "2", "5", "0", "40", "32", "33") + "u"
		case 3:
			return kind, fmt.Sprintf("\x1b[=%du", r.n(32))
		default:
			return kind, "\x1b[?u"
		}
	case kString:
		if r.chance(1, 3) {
			// the ECMA-48 CSI grammar: optional private marker, parameters (digits ; :), 0-2 intermediates, any final byte
			s := "\x1b["
			if r.chance(1, 3) {
				s += r.pick("?", ">", "<", "=")
			}
			np := r.n(4)
			if r.chance(1, 4) {
				// the property's whole range of parameter counts, and the sizes a parameter store is likely to have
				np = []int{r.n(22), r.n(22), 8, 9, 15, 16, 17, 18, 20, 21, 31, 32, 33, 34}[r.n(14)]
			}
			// sub-parameter separators end the parameter scan early: most sequences have none, so that long parameter
			// lists are really scanned to their end (seeded change C09-m10 went unnoticed behind a colon)
			colons := r.chance(1, 3)
			for i := 0; i < np; i++ {
				if i > 0 {
					if colons {
						s += r.pick(";", ";", ":")
					} else {
						s += ";"
					}
				}
				if r.chance(4, 5) {
					s += fmt.Sprint(r.n(40))
				}
			}
			ni := r.n(3)
			for i := 0; i < ni; i++ {
				s += string(rune(0x20 + r.n(16)))
			}
			// finals, with the ends of the range over-represented
			f := 0x40 + r.n(63)
			switch r.n(6) {
			case 0:
				f = 0x40
			case 1:
				f = 0x7e
			}
			return kind, s + string(rune(f))
		}
		switch r.n(7) {
		case 6:
			// strings that are not `number ; payload`: a number closed at once by each terminator, a number followed by
			// other bytes, no number at all; what follows the terminator must be interpreted again (seeded change C14-m8)
			body := r.pick("112", "104", "0", "2", "7", "", "", "x", "?", "l", "12x", "1\x1b", "\x1b", "\x1b\x1b", "a\x1bb", "\\", "9\\")
			return kind, "\x1b]" + body + r.pick("\x1b\\", "\x1b\\", "\x07", "\x9c") + r.pick("", "", "\x1b[6n", "\x1b[5n", "\x1b[c", "z")
		case 0:
			return kind, "\x1b]" + r.pick("0", "2", "6", "7", "4", "52", "", "10", "112", "9999999999999999999999", "18446744073709551616", "18446744073709551618", "18446744073709551622", "18446744073709551623", "4294967296", "4294967298", "00", "07") + ";" + r.oscPayload(p.wide) + r.pick("\x07", "\x1b\\")
		case 1:
			if r.chance(1, 2) {
				// payloads with ESC, backslash and BEL inside, ending in an odd or even number of ESC bytes
				pl := ""
				for i, n := 0, r.n(5); i < n; i++ {
					pl += r.pick("q", "\x1b", "\x1b\x1b", "\\", "\x07", "1;2", "\x1bA", "\\\x1b", "$", "\x18")
				}
				return kind, "\x1bP" + pl + r.pick("\x1b\\", "\x1b\\", "\x9c")
			}
			return kind, "\x1bP" + r.text(false, 5) + "\x1b\\"
		case 2:
			return kind, r.pick("\x1b(B", "\x1b)0", "\x1b=", "\x1b>", "\x1bc", "\x1b#8", "\x1b%G", "\x1b 7", "\x1b7", "\x1b8", "\x1b\\", "\x1bZ")
		case 3:
			return kind, r.pick("\x1b[4:3m", "\x1b[1 q", "\x1b[?1;2$y", "\x1b[>4;2m", "\x1b[>4m", "\x1b[!p", "\x1b[2\"q", "\x1b[%", "\x1b[>4;1m", "\x1b[<1;2;3M", "\x1b[?25$p", "\x1b[38:2:1:2:3m")
		case 4:
			return kind, "\x1b[" + r.pick("22", "23", "0") + "t"
		default:
			return kind, "\x1b[" + fmt.Sprint(r.n(30)) + string(rune(0x40+r.n(63)))
		}
	case kHostile:
		switch r.n(8) {
		case 0:
			// an overlong CSI: more parameters than any store holds (with and without values), any final byte
			np := 28 + r.n(14)
			if r.chance(1, 4) {
				np = 60 + r.n(80)
			}
			t := "\x1b[" + r.pick("", "", "?", ">")
			for i := 0; i < np; i++ {
				if i > 0 {
					t += ";"
				}
				if r.chance(2, 3) {
					t += fmt.Sprint(r.n(70))
				}
			}
			return kind, t + r.pick("m", "H", "r", "X", "h", "l", "n", "u", "J", "K", "S", "T", "L", "M", "P", "@", "d", "G", "A", "c", "t", "q")
		case 1:
			// very long runs of one byte class: digits, intermediates, escapes, continuation bytes
			return kind, r.pick("\x1b[", "\x1b]", "\x1bP", "\x1b", "") + strings.Repeat(r.pick("9", ";", " ", "\x1b", "\x80", "\xe4", ":", "?", "0"), 20+r.n(300)) + r.pick("", "m", "\x07", "\x1b\\")
		}
		n := 1 + r.n(6)
		b := make([]byte, n)
		for i := range b {
			b[i] = byte(r.n(256))
		}
		return kind, string(b)
	case kResize:
		return kind, "" // the caller turns it into a Resize operation
	}
	return kText, r.text(p.wide, w)
}

func (r *rng) size() (int, int) {
	switch r.n(10) {
	case 0:
		return 80, 24
	case 1:
		return 1 + r.n(3), 4 + r.n(6) // tall and narrow
	case 2:
		return 10 + r.n(30), 1 + r.n(3) // wide and short
	case 3:
		if r.chance(1, 4) {
			return 1, 1
		}
		return 2 + r.n(3), 1 + r.n(2)
	default:
		return 1 + r.n(9), 1 + r.n(7)
	}
}

func (r *rng) genCase(id string, p profile, mode, grid int) genCase {
	w, h := r.size()
	c := genCase{id: id, mode: mode, grid: grid, w: w, h: h, mask: p.mask}
	nItems := 1 + r.n(p.maxItems)
	var stream []byte
	var cuts []int
	flush := func() {
		if len(stream) == 0 {
			return
		}
		sort.Ints(cuts)
		prev := 0
		for _, ct := range cuts {
			if ct > prev && ct < len(stream) {
				c.ops = append(c.ops, genOp{kind: 110, data: append([]byte(nil), stream[prev:ct]...)})
				prev = ct
			}
		}
		c.ops = append(c.ops, genOp{kind: 110, data: append([]byte(nil), stream[prev:]...)})
		stream = nil
		cuts = nil
	}
	if r.chance(1, 2) {
		// autowrap is off by default in this emulator: switch it on in half of the cases
		c.ops = append(c.ops, genOp{kind: 110, data: []byte("\x1b[?7h"), label: kMode})
	}
	if p.prefill {
		// text on most rows, several styles, so that erase/scroll/resize have content to act on
		pre := ""
		for y := 0; y < h; y++ {
			if r.chance(1, 5) {
				pre += "\r\n"
				continue
			}
			if r.chance(1, 2) {
				pre += r.sgr()
			}
			if p.wide && r.chance(1, 4) {
				// a row of double-width glyphs at either parity: any later cut of the row
				// (resize, erase, delete, overwrite) lands inside one of them
				col := 0
				if r.chance(1, 2) {
					pre += "a"
					col = 1
				}
				for ; col+2 <= w; col += 2 {
					pre += r.pick("日", "本", "🐹", "語")
				}
			} else {
				pre += r.text(p.wide, w)
			}
			if y+1 < h {
				pre += "\r\n"
			}
		}
		pre += fmt.Sprintf("\x1b[%d;%dH", 1+r.n(h), 1+r.n(w))
		c.ops = append(c.ops, genOp{kind: 110, data: []byte(pre), label: kText})
	}
	minBytes := 0
	if p.minBytes > 0 {
		minBytes = p.minBytes + r.n(p.minBytes)
	}
	for i := 0; i < nItems || (len(stream) < minBytes && i < 20000); i++ {
		kind, it := r.item(p, w, h)
		if kind == kResize {
			flush()
			nw, nh := r.size()
			if r.chance(1, 2) {
				nw, nh = maxInt(1, w+r.n(5)-2), maxInt(1, h+r.n(5)-2)
			}
			around := r.chance(1, 4)
			if around {
				// save the cursor near the far corner first, and come back to it after the resize:
				// the saved position is used only by the restore, the cells under it by the text
				save := fmt.Sprintf("\x1b[%d;%dH", maxInt(1, h-r.n(2)), maxInt(1, w-r.n(2))) + r.pick("\x1b[s", "\x1b7")
				if r.chance(1, 2) {
					save += fmt.Sprintf("\x1b[%d;%dH", 1+r.n(h), 1+r.n(w))
				}
				c.ops = append(c.ops, genOp{kind: 110, data: []byte(save), label: kCsiMove})
			}
			c.ops = append(c.ops, genOp{kind: 111, a: nw, b: nh, label: kResize})
			w, h = nw, nh
			if around {
				c.ops = append(c.ops, genOp{kind: 110, data: []byte(r.pick("\x1b[u", "\x1b8")), label: kCsiMove})
				c.ops = append(c.ops, genOp{kind: 110, data: []byte(r.text(p.wide, w)), label: kText})
			}
			continue
		}
		if p.step {
			c.ops = append(c.ops, genOp{kind: 110, data: []byte(it), label: kind})
			continue
		}
		if minBytes == 0 && r.chance(1, 3) {
			cuts = append(cuts, len(stream))
		}
		stream = append(stream, it...)
		if minBytes > 0 {
			// few cuts: most reads are longer than the reader's buffer, which then cuts them at 4096 bytes
			if r.chance(1, 400) {
				cuts = append(cuts, 1+r.n(len(stream)))
			}
			continue
		}
		if p.cutAny && r.chance(1, 4) && len(stream) > 1 {
			cuts = append(cuts, 1+r.n(len(stream)-1))
		}
	}
	flush()
	return c
}

func maxInt(a, b int) int {
	if a > b {
		return a
	}
	return b
}

func writeCase(w *bufio.Writer, c genCase) {
	fmt.Fprintf(w, "# %s\n", c.id)
	fmt.Fprintf(w, "100 %d %d %d %d %d\n", c.mode, c.grid, c.w, c.h, c.mask)
	// width table for every multi-byte rune of the input
	seen := map[rune]bool{}
	fmt.Fprint(w, "101")
	var all []byte
	for _, op := range c.ops {
		if op.kind == 110 {
			all = append(all, op.data...)
		}
	}
	for b := all; len(b) > 0; {
		ru, n := utf8.DecodeRune(b)
		b = b[n:]
		if ru >= 128 && !seen[ru] {
			seen[ru] = true
			fmt.Fprintf(w, " %d %d", ru, termemu.VerifRuneWidth(ru))
		}
	}
	fmt.Fprintln(w)
	for _, op := range c.ops {
		if op.label != 0 {
			fmt.Fprintf(w, "105 %d\n", op.label)
		}
		switch op.kind {
		case 110:
			fmt.Fprint(w, "110")
			for _, b := range op.data {
				fmt.Fprintf(w, " %d", b)
			}
			fmt.Fprintln(w)
		case 111:
			fmt.Fprintf(w, "111 %d %d\n", op.a, op.b)
		}
	}
	fmt.Fprintln(w, "199")
}

func weights(pairs ...int) [kCount]int {
	var w [kCount]int
	for i := 0; i+1 < len(pairs); i += 2 {
		w[pairs[i]] = pairs[i+1]
	}
	return w
}

var allKinds = weights(kText, 30, kC0Move, 6, kOtherC0, 2, kCsiMove, 12, kErase, 10, kScroll, 6, kMargins, 3, kSgr, 10,
	kMode, 5, kAltScr, 2, kQuery, 4, kKbd, 4, kString, 4, kResize, 6)

var profiles = map[string]profile{
	"mixed":     {wide: true, cutAny: true, maxItems: 14, weights: allKinds},
	"narrow":    {wide: false, maxItems: 14, weights: allKinds},
	"hostile":   {wide: true, cutAny: true, maxItems: 16, mask: 1<<1 | 1<<2, weights: weights(kText, 20, kC0Move, 6, kOtherC0, 4, kCsiMove, 10, kErase, 8, kScroll, 8, kMargins, 4, kSgr, 6, kMode, 4, kAltScr, 2, kQuery, 2, kKbd, 2, kString, 6, kResize, 8, kHostile, 25)},
	"stepall":   {wide: true, step: true, prefill: true, maxItems: 12, weights: allKinds},
	"c03":       {wide: true, step: true, prefill: true, maxItems: 12, weights: weights(kText, 55, kC0Move, 8, kCsiMove, 20, kSgr, 6, kMode, 8, kMargins, 3)},
	"c04":       {wide: true, step: true, prefill: true, maxItems: 12, weights: weights(kText, 10, kC0Move, 30, kCsiMove, 45, kMargins, 10, kMode, 5, kAltScr, 4)},
	"c05":       {wide: true, step: true, prefill: true, maxItems: 12, weights: weights(kText, 14, kCsiMove, 20, kErase, 42, kSgr, 12, kC0Move, 5, kMargins, 7, kScroll, 8)},
	"c05g":      {wide: true, step: true, prefill: true, clusters: true, maxItems: 12, weights: weights(kText, 30, kCsiMove, 16, kErase, 36, kSgr, 8, kC0Move, 4, kMargins, 3, kScroll, 3)},
	"c06":       {wide: true, step: true, prefill: true, maxItems: 12, weights: weights(kText, 12, kCsiMove, 12, kScroll, 38, kMargins, 12, kC0Move, 12, kSgr, 8, kErase, 10)},
	"c07":       {wide: true, step: true, prefill: true, maxItems: 12, weights: weights(kText, 25, kSgr, 45, kErase, 15, kCsiMove, 10, kScroll, 5)},
	"c09cut":    {wide: true, cutAny: true, maxItems: 12, weights: weights(kText, 35, kString, 55, kOtherC0, 10)},
	"c09":       {wide: true, step: true, prefill: false, maxItems: 12, weights: weights(kText, 35, kString, 55, kOtherC0, 10)},
	"c14":       {wide: true, cutAny: true, maxItems: 14, mask: 1<<1 | 1<<2 | 1<<4 | 1<<5, weights: weights(kText, 20, kCsiMove, 20, kQuery, 30, kKbd, 10, kAltScr, 5, kSgr, 5, kMode, 5, kString, 5)},
	"c17":       {wide: true, step: true, prefill: true, maxItems: 18, weights: weights(kText, 22, kMode, 28, kAltScr, 20, kCsiMove, 8, kKbd, 16, kMargins, 4, kSgr, 4, kErase, 3)},
	"c18":       {wide: true, step: true, prefill: true, maxItems: 10, weights: weights(kText, 25, kResize, 40, kCsiMove, 15, kMargins, 10, kC0Move, 5, kAltScr, 5)},
	"c18g":      {wide: true, step: true, prefill: true, clusters: true, maxItems: 10, weights: weights(kText, 35, kResize, 40, kCsiMove, 12, kMargins, 5, kC0Move, 4, kAltScr, 4)},
	"c19":       {wide: false, step: true, maxItems: 60, mask: 1<<1 | 1<<2 | 1<<4 | 1<<5, weights: weights(kKbd, 80, kAltScr, 10, kText, 5, kQuery, 5)},
	"gclusters": {wide: true, cutAny: true, clusters: true, maxItems: 14, weights: weights(kText, 45, kC0Move, 8, kCsiMove, 14, kErase, 8, kScroll, 4, kMargins, 2, kSgr, 12, kMode, 4, kAltScr, 1, kResize, 2)},
	"c08long":   {wide: true, cutAny: true, maxItems: 14, minBytes: 4300, weights: weights(kText, 60, kC0Move, 8, kCsiMove, 8, kErase, 4, kScroll, 3, kSgr, 8, kMode, 2, kQuery, 3, kString, 4)},
	"c08":       {wide: true, cutAny: true, maxItems: 14, weights: weights(kText, 35, kC0Move, 8, kOtherC0, 2, kCsiMove, 12, kErase, 10, kScroll, 6, kMargins, 3, kSgr, 10, kMode, 5, kAltScr, 2, kQuery, 4, kKbd, 2, kString, 6)},
}

// genCases writes n cases of the profile for both buffer kinds.
func genCases(out io.Writer, prof string, seed uint64, n int, kinds []int, modes []int) {
	w := bufio.NewWriterSize(out, 1<<20)
	defer w.Flush()
	p, ok := profiles[prof]
	if !ok {
		panic("unknown profile " + prof)
	}
	clusterText = p.clusters
	for i := 0; i < n; i++ {
		r := &rng{s: seed*1000003 + uint64(i)*7919}
		base := r.genCase("", p, 0, 0)
		for _, k := range kinds {
			for _, m := range modes {
				c := base
				c.grid = k
				c.mode = m
				c.id = fmt.Sprintf("%s-%d-%d-k%d-m%d", prof, seed, i, k, m)
				writeCase(w, c)
			}
		}
	}
}
