package main

import (
	"bufio"
	"fmt"
	"io"
	"sort"
	"unicode/utf8"

	"github.com/ricochet1k/termemu"
)

// SplitMix64: every random choice of a run derives from one seed.
type rng struct{ s uint64 }

func (r *rng) next() uint64 {
	r.s += 0x9e3779b97f4a7c15
	z := r.s
	z = (z ^ (z >> 30)) * 0xbf58476d1ce4e5b9
	z = (z ^ (z >> 27)) * 0x94d049bb133111eb
	return z ^ (z >> 31)
}
func (r *rng) n(k int) int {
	if k <= 0 {
		return 0
	}
	return int(r.next() % uint64(k))
}
func (r *rng) chance(num, den int) bool { return r.n(den) < num }
func (r *rng) pick(xs ...string) string  { return xs[r.n(len(xs))] }

type genOp struct {
	kind int // 110 feed, 111 resize
	data []byte
	a, b int
}

type genCase struct {
	id         string
	mode, grid int
	w, h       int
	ops        []genOp
}

var wideRunes = []string{"中", "日", "語", "😀", "🐹"}
var narrowMB = []string{"é", "ñ", "ß", "λ", "Ж", "€"}

// parameter classes relative to an edge value
func (r *rng) param(edge int) string {
	switch r.n(12) {
	case 0:
		return ""
	case 1:
		return "0"
	case 2, 3:
		return "1"
	case 4:
		return fmt.Sprint(edge - 1)
	case 5:
		return fmt.Sprint(edge)
	case 6:
		return fmt.Sprint(edge + 1)
	case 7:
		return "65535"
	case 8:
		return r.pick("2147483648", "9223372036854775807", "18446744073709551617", "99999999999999999999999")
	default:
		if edge < 1 {
			edge = 1
		}
		return fmt.Sprint(1 + r.n(edge))
	}
}

func (r *rng) smallParam(edge int) string {
	if r.chance(1, 6) {
		return ""
	}
	if edge < 1 {
		edge = 1
	}
	return fmt.Sprint(r.n(edge + 2))
}

func (r *rng) text(wide bool, maxLen int) string {
	n := 1 + r.n(maxLen)
	s := ""
	for i := 0; i < n; i++ {
		switch {
		case wide && r.chance(1, 4):
			s += wideRunes[r.n(len(wideRunes))]
		case r.chance(1, 10):
			s += narrowMB[r.n(len(narrowMB))]
		default:
			s += string(rune('a' + r.n(26)))
		}
	}
	return s
}

func (r *rng) sgr() string {
	n := 1 + r.n(4)
	s := "\x1b["
	for i := 0; i < n; i++ {
		if i > 0 {
			s += ";"
		}
		switch r.n(14) {
		case 0:
			s += "0"
		case 1:
			s += ""
		case 2:
			s += fmt.Sprint(1 + r.n(9))
		case 3:
			s += r.pick("21", "22", "23", "24", "25", "27", "28", "29", "51", "52", "53", "54", "55")
		case 4:
			s += fmt.Sprint(30 + r.n(8))
		case 5:
			s += fmt.Sprint(40 + r.n(8))
		case 6:
			s += fmt.Sprint(90 + r.n(8))
		case 7:
			s += fmt.Sprint(100 + r.n(8))
		case 8:
			s += r.pick("39", "49")
		case 9:
			s += fmt.Sprintf("%s;5;%d", r.pick("38", "48"), r.n(256))
		case 10:
			s += fmt.Sprintf("%s;2;%d;%d;%d", r.pick("38", "48"), r.n(256), r.n(256), r.n(256))
		case 11:
			s += r.pick("38", "48", "38;5", "48;2", "38;2;1", "48;2;1;2", "38;9;1")
		default:
			s += fmt.Sprint(r.n(256))
		}
	}
	return s + "m"
}

type profile struct {
	wide     bool
	resize   bool
	hostile  bool
	altscr   bool
	cutAny   bool // cut chunks anywhere (inside sequences)
	maxItems int
}

func (r *rng) item(p profile, w, h int) string {
	k := r.n(100)
	switch {
	case k < 30:
		return r.text(p.wide, 2*w)
	case k < 36:
		return r.pick("\n", "\r", "\r\n", "\b", "\t", "\x0c", "\x07", "\x7f", "\x00", "\x0b", "\x05")
	case k < 48: // cursor motion
		switch r.n(9) {
		case 0:
			return "\x1b[" + r.param(h) + "A"
		case 1:
			return "\x1b[" + r.param(h) + "B"
		case 2:
			return "\x1b[" + r.param(w) + "C"
		case 3:
			return "\x1b[" + r.param(w) + "D"
		case 4:
			return "\x1b[" + r.param(w) + "G"
		case 5:
			return "\x1b[" + r.param(h) + "d"
		case 6:
			return "\x1b[" + r.smallParam(h) + ";" + r.smallParam(w) + r.pick("H", "f")
		case 7:
			return r.pick("\x1b[s", "\x1b[u", "\x1bD", "\x1bM")
		default:
			return "\x1b[" + r.param(h) + ";" + r.param(w) + "H"
		}
	case k < 58: // erase / delete
		switch r.n(4) {
		case 0:
			return "\x1b[" + r.pick("", "0", "1", "2", "3") + "J"
		case 1:
			return "\x1b[" + r.pick("", "0", "1", "2", "3") + "K"
		case 2:
			return "\x1b[" + r.param(w) + "X"
		default:
			return "\x1b[" + r.param(w) + "P"
		}
	case k < 66: // scrolling
		switch r.n(5) {
		case 0:
			return "\x1b[" + r.param(h) + "S"
		case 1:
			return "\x1b[" + r.param(h) + "T"
		case 2:
			return "\x1b[" + r.param(h) + "L"
		case 3:
			return "\x1b[" + r.param(h) + "M"
		default:
			if r.chance(1, 4) {
				return "\x1b[r"
			}
			return "\x1b[" + r.smallParam(h) + ";" + r.smallParam(h) + "r"
		}
	case k < 76:
		return r.sgr()
	case k < 82: // modes
		m := r.pick("1", "7", "9", "12", "25", "1000", "1002", "1003", "1004", "1005", "1006", "1015", "2004", "7", "7")
		if p.altscr && r.chance(1, 3) {
			m = "1049"
		}
		return "\x1b[?" + m + r.pick("h", "l")
	case k < 86: // queries
		return r.pick("\x1b[c", "\x1b[0c", "\x1b[>c", "\x1b[5n", "\x1b[6n", "\x1b[?u", "\x1b[1c", "\x1b[>0c")
	case k < 90: // kitty keyboard
		switch r.n(4) {
		case 0:
			return fmt.Sprintf("\x1b[=%d;%du", r.n(32), 1+r.n(3))
		case 1:
			return fmt.Sprintf("\x1b[>%du", r.n(32))
		case 2:
			return "\x1b[<" + r.pick("", "1", "2", "5") + "u"
		default:
			return "\x1b[?u"
		}
	case k < 94: // OSC / DCS / misc escapes
		switch r.n(6) {
		case 0:
			return "\x1b]" + r.pick("0", "2", "6", "7", "4", "52", "") + ";" + r.text(p.wide, 6) + r.pick("\x07", "\x1b\\")
		case 1:
			return "\x1bP" + r.text(false, 5) + "\x1b\\"
		case 2:
			return r.pick("\x1b(B", "\x1b)0", "\x1b=", "\x1b>", "\x1bc", "\x1b#8", "\x1b%G", "\x1b 7")
		case 3:
			return r.pick("\x1b[4:3m", "\x1b[1 q", "\x1b[?1;2$y", "\x1b[>4;2m", "\x1b[>4m", "\x1b[!p", "\x1b[2\"q", "\x1b[%")
		case 4:
			return "\x1b[" + r.pick("22", "23", "0") + "t"
		default:
			return "\x1b[" + fmt.Sprint(r.n(30)) + string(rune(0x40+r.n(63)))
		}
	default:
		if p.hostile {
			n := 1 + r.n(6)
			b := make([]byte, n)
			for i := range b {
				b[i] = byte(r.n(256))
			}
			return string(b)
		}
		return r.text(p.wide, w)
	}
}

func (r *rng) size() (int, int) {
	switch r.n(10) {
	case 0:
		return 80, 24
	case 1:
		return 1 + r.n(3), 4 + r.n(6) // tall and narrow
	case 2:
		return 10 + r.n(30), 1 + r.n(3) // wide and short
	case 3:
		if r.chance(1, 4) {
			return 1, 1
		}
		return 2 + r.n(3), 1 + r.n(2)
	default:
		return 1 + r.n(9), 1 + r.n(7)
	}
}

func (r *rng) genCase(id string, p profile, mode, grid int) genCase {
	w, h := r.size()
	c := genCase{id: id, mode: mode, grid: grid, w: w, h: h}
	nItems := 1 + r.n(p.maxItems)
	var stream []byte
	var cuts []int
	flush := func() {
		if len(stream) == 0 {
			return
		}
		// cut the stream into chunks
		sort.Ints(cuts)
		prev := 0
		for _, ct := range cuts {
			if ct > prev && ct < len(stream) {
				c.ops = append(c.ops, genOp{kind: 110, data: append([]byte(nil), stream[prev:ct]...)})
				prev = ct
			}
		}
		c.ops = append(c.ops, genOp{kind: 110, data: append([]byte(nil), stream[prev:]...)})
		stream = nil
		cuts = nil
	}
	for i := 0; i < nItems; i++ {
		if p.resize && r.chance(1, 8) {
			flush()
			nw, nh := r.size()
			if r.chance(1, 2) {
				nw, nh = maxInt(1, w+r.n(5)-2), maxInt(1, h+r.n(5)-2)
			}
			c.ops = append(c.ops, genOp{kind: 111, a: nw, b: nh})
			w, h = nw, nh
			continue
		}
		it := r.item(p, w, h)
		if r.chance(1, 3) {
			cuts = append(cuts, len(stream))
		}
		stream = append(stream, it...)
		if p.cutAny && r.chance(1, 4) && len(stream) > 1 {
			cuts = append(cuts, 1+r.n(len(stream)-1))
		}
	}
	flush()
	return c
}

func maxInt(a, b int) int {
	if a > b {
		return a
	}
	return b
}

func writeCase(w *bufio.Writer, c genCase) {
	fmt.Fprintf(w, "# %s\n", c.id)
	fmt.Fprintf(w, "100 %d %d %d %d\n", c.mode, c.grid, c.w, c.h)
	// width table for every multi-byte rune of the input
	seen := map[rune]bool{}
	fmt.Fprint(w, "101")
	var all []byte
	for _, op := range c.ops {
		if op.kind == 110 {
			all = append(all, op.data...)
		}
	}
	for b := all; len(b) > 0; {
		ru, n := utf8.DecodeRune(b)
		b = b[n:]
		if ru >= 128 && !seen[ru] {
			seen[ru] = true
			fmt.Fprintf(w, " %d %d", ru, termemu.VerifRuneWidth(ru))
		}
	}
	fmt.Fprintln(w)
	for _, op := range c.ops {
		switch op.kind {
		case 110:
			fmt.Fprint(w, "110")
			for _, b := range op.data {
				fmt.Fprintf(w, " %d", b)
			}
			fmt.Fprintln(w)
		case 111:
			fmt.Fprintf(w, "111 %d %d\n", op.a, op.b)
		}
	}
	fmt.Fprintln(w, "199")
}

var profiles = map[string]profile{
	"mixed":   {wide: true, resize: true, altscr: true, cutAny: true, maxItems: 14},
	"narrow":  {wide: false, resize: false, altscr: true, cutAny: false, maxItems: 14},
	"hostile": {wide: true, resize: true, hostile: true, altscr: true, cutAny: true, maxItems: 16},
}

// genCases writes n cases of the profile for both buffer kinds.
func genCases(out io.Writer, prof string, seed uint64, n int, kinds []int, modes []int) {
	w := bufio.NewWriterSize(out, 1<<20)
	defer w.Flush()
	p, ok := profiles[prof]
	if !ok {
		panic("unknown profile " + prof)
	}
	for i := 0; i < n; i++ {
		r := &rng{s: seed*1000003 + uint64(i)*7919}
		base := r.genCase("", p, 0, 0)
		for _, k := range kinds {
			for _, m := range modes {
				c := base
				c.grid = k
				c.mode = m
				c.id = fmt.Sprintf("%s-%d-%d-k%d-m%d", prof, seed, i, k, m)
				writeCase(w, c)
			}
		}
	}
}
