package main

import (
	"flag"
	"fmt"
	"os"

	"github.com/ricochet1k/termemu"
)

func main() {
	if len(os.Args) < 2 {
		fmt.Fprintln(os.Stderr, "usage: harness gen|run ...")
		os.Exit(2)
	}
	switch os.Args[1] {
	case "gen":
		fs := flag.NewFlagSet("gen", flag.ExitOnError)
		prof := fs.String("profile", "mixed", "generator profile")
		seed := fs.Uint64("seed", 1, "seed")
		n := fs.Int("n", 100, "number of base cases")
		kinds := fs.String("kinds", "01", "buffer kinds: 0 span, 1 grid")
		modes := fs.String("modes", "0", "text modes: 0 rune, 1 grapheme")
		fs.Parse(os.Args[2:])
		var ks, ms []int
		for _, c := range *kinds {
			ks = append(ks, int(c-'0'))
		}
		for _, c := range *modes {
			ms = append(ms, int(c-'0'))
		}
		genCases(os.Stdout, *prof, *seed, *n, ks, ms)
	case "run":
		runCases(os.Stdin, os.Stdout)
	case "width":
		for _, a := range os.Args[2:] {
			var r int
			fmt.Sscan(a, &r)
			fmt.Printf("%d %d ", r, termemu.VerifRuneWidth(rune(r)))
		}
		fmt.Println()
	default:
		fmt.Fprintln(os.Stderr, "unknown command")
		os.Exit(2)
	}
}
