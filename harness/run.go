package main

import (
	"bufio"
	"errors"
	"fmt"
	"io"
	"os"
	"strconv"
	"strings"
	"sync"
	"time"

	"github.com/ricochet1k/termemu"
)

// ---------- scripted backend ----------

type chunk struct {
	data []byte
	err  error // delivered together with (after) data
	zero bool  // a zero-length read (0, nil)
}

type backend struct {
	mu       sync.Mutex
	cond     *sync.Cond
	queue    []chunk
	idle     chan struct{} // signalled when Read finds the queue empty
	closed   bool
	out      []byte // bytes written by the terminal
	wscript  []wres // scripted write results (consumed in order); empty = accept all
	short    int    // > 0: accept at most this many bytes per Write (a nearly full pty); replies must still arrive whole
	sizes    [][2]int
	teeCheck []byte
}

type wres struct {
	n   int
	err error
}

func newBackend() *backend {
	b := &backend{idle: make(chan struct{}, 1)}
	b.cond = sync.NewCond(&b.mu)
	return b
}

func (b *backend) Read(p []byte) (int, error) {
	b.mu.Lock()
	defer b.mu.Unlock()
	for len(b.queue) == 0 {
		if b.closed {
			return 0, io.EOF
		}
		select {
		case b.idle <- struct{}{}:
		default:
		}
		b.cond.Wait()
	}
	c := &b.queue[0]
	if c.zero {
		b.queue = b.queue[1:]
		return 0, nil
	}
	n := copy(p, c.data)
	c.data = c.data[n:]
	if len(c.data) == 0 {
		err := c.err
		b.queue = b.queue[1:]
		return n, err
	}
	return n, nil
}

func (b *backend) push(c chunk) {
	b.mu.Lock()
	// drain a stale idle token
	select {
	case <-b.idle:
	default:
	}
	b.queue = append(b.queue, c)
	b.cond.Broadcast()
	b.mu.Unlock()
}

func (b *backend) close() {
	b.mu.Lock()
	b.closed = true
	b.cond.Broadcast()
	b.mu.Unlock()
}

func (b *backend) Write(p []byte) (int, error) {
	b.mu.Lock()
	defer b.mu.Unlock()
	if len(b.wscript) > 0 {
		r := b.wscript[0]
		b.wscript = b.wscript[1:]
		n := r.n
		if n > len(p) {
			n = len(p)
		}
		b.out = append(b.out, p[:n]...)
		return n, r.err
	}
	if b.short > 0 && len(p) > b.short {
		b.out = append(b.out, p[:b.short]...)
		return b.short, nil
	}
	b.out = append(b.out, p...)
	return len(p), nil
}

func (b *backend) SetSize(w, h int) error {
	b.mu.Lock()
	b.sizes = append(b.sizes, [2]int{w, h})
	b.mu.Unlock()
	return nil
}

func (b *backend) takeOut() []byte {
	b.mu.Lock()
	defer b.mu.Unlock()
	o := b.out
	b.out = nil
	return o
}

// ---------- recording frontend ----------

type ev struct {
	kind       int // 1 bell 2 cursor 3 style 4 flag 5 int 6 str 7 scrolllines 8 region
	a, b, c, d int
	s          string
	st         [3]uint32
}

type frontend struct {
	vt       *termemu.VerifTerm
	evs      []ev
	unlocked int // callbacks that ran without the terminal lock held
	shadow   *shadowScreen
	// most recent values announced (C10)
	haveCursor, haveStyle bool
	lastCX, lastCY        int
	lastStyle             [3]uint32
	lastFlags             map[int]int
	lastInts              map[int]int
	lastStrs              map[int]string
}

func (f *frontend) lockCheck() {
	if f.vt == nil {
		return
	}
	if f.vt.T.TryLock() {
		f.unlocked++
		f.vt.T.Unlock()
	}
}

func styleWords(s termemu.Style) [3]uint32 { return termemu.VerifStyleWords(s) }

func (f *frontend) Bell() { f.lockCheck(); f.evs = append(f.evs, ev{kind: 1}) }
func (f *frontend) RegionChanged(r termemu.Region, c termemu.ChangeReason) {
	f.lockCheck()
	f.evs = append(f.evs, ev{kind: 8, a: r.X, b: r.Y, c: r.X2, d: r.Y2})
	if f.shadow != nil && f.vt != nil {
		f.shadow.refresh(f.vt, r)
	}
}
func (f *frontend) ScrollLines(y int) { f.lockCheck(); f.evs = append(f.evs, ev{kind: 7, a: y}) }
func (f *frontend) CursorMoved(x, y int) {
	f.lockCheck()
	f.evs = append(f.evs, ev{kind: 2, a: x, b: y})
	f.haveCursor, f.lastCX, f.lastCY = true, x, y
}
func (f *frontend) StyleChanged(s termemu.Style) {
	f.lockCheck()
	f.evs = append(f.evs, ev{kind: 3, st: styleWords(s)})
	f.haveStyle, f.lastStyle = true, styleWords(s)
}
func (f *frontend) ViewFlagChanged(v termemu.ViewFlag, value bool) {
	f.lockCheck()
	b := 0
	if value {
		b = 1
	}
	f.evs = append(f.evs, ev{kind: 4, a: int(v), b: b})
	if f.lastFlags == nil {
		f.lastFlags = map[int]int{}
	}
	f.lastFlags[int(v)] = b
}
func (f *frontend) ViewIntChanged(v termemu.ViewInt, value int) {
	f.lockCheck()
	f.evs = append(f.evs, ev{kind: 5, a: int(v), b: value})
	if f.lastInts == nil {
		f.lastInts = map[int]int{}
	}
	f.lastInts[int(v)] = value
}
func (f *frontend) ViewStringChanged(v termemu.ViewString, value string) {
	f.lockCheck()
	f.evs = append(f.evs, ev{kind: 6, a: int(v), s: value})
	if f.lastStrs == nil {
		f.lastStrs = map[int]string{}
	}
	f.lastStrs[int(v)] = value
}

// decoyFrontend is the frontend a terminal is built with in the cases where the recording frontend is attached
// afterwards through the public SetFrontend: from then on no callback may reach it.
type decoyFrontend struct{ hits int }

func (d *decoyFrontend) Bell()                                              { d.hits++ }
func (d *decoyFrontend) RegionChanged(termemu.Region, termemu.ChangeReason) { d.hits++ }
func (d *decoyFrontend) ScrollLines(int)                                    { d.hits++ }
func (d *decoyFrontend) CursorMoved(int, int)                               { d.hits++ }
func (d *decoyFrontend) StyleChanged(termemu.Style)                         { d.hits++ }
func (d *decoyFrontend) ViewFlagChanged(termemu.ViewFlag, bool)             { d.hits++ }
func (d *decoyFrontend) ViewIntChanged(termemu.ViewInt, int)                { d.hits++ }
func (d *decoyFrontend) ViewStringChanged(termemu.ViewString, string)       { d.hits++ }

// ---------- shadow screen (C10) ----------

type scell struct {
	text string
	w    int
	st   [3]uint32
}

type shadowScreen struct {
	rows     [][]scell
	problems []string
	// regions announced at a moment when the row could not be read back cell by cell (grapheme mode: a row
	// that holds, in the middle of an operation, text that segments into other cells); read again when the
	// operation is over
	deferred []termemu.Region
	final    bool
}

func lineCells(l termemu.Line, mode termemu.TextReadMode) ([]scell, bool) {
	var out []scell
	ok := true
	for _, sp := range l.Spans {
		st := styleWords(sp.Style)
		if sp.Text == "" {
			for i := 0; i < sp.Width; i++ {
				out = append(out, scell{text: string(sp.Rune), w: 1, st: st})
			}
			continue
		}
		buf := []byte(sp.Text)
		state := -1
		total := 0
		for len(buf) > 0 {
			cl, n, w, ns, sok := termemu.VerifStepCluster(buf, state, mode)
			if !sok || n <= 0 {
				ok = false
				break
			}
			if w < 1 {
				if len(out) > 0 {
					j := len(out) - 1
					for j > 0 && out[j].w == 0 {
						j--
					}
					out[j].text += string(cl)
				}
			} else {
				out = append(out, scell{text: string(cl), w: w, st: st})
				for i := 1; i < w; i++ {
					out = append(out, scell{w: 0, st: st})
				}
				total += w
			}
			buf = buf[n:]
			state = ns
		}
		if total != sp.Width {
			ok = false
		}
	}
	return out, ok
}

func (sh *shadowScreen) refresh(vt *termemu.VerifTerm, r termemu.Region) {
	t := vt.Terminal()
	w, h := t.Size()
	// the shadow follows the size of the active screen
	for len(sh.rows) < h {
		sh.rows = append(sh.rows, nil)
	}
	sh.rows = sh.rows[:h]
	for y := range sh.rows {
		for len(sh.rows[y]) < w {
			sh.rows[y] = append(sh.rows[y], scell{text: "?", w: 1})
		}
		sh.rows[y] = sh.rows[y][:w]
	}
	if r.X < 0 || r.Y < 0 || r.X2 > w || r.Y2 > h {
		sh.problems = append(sh.problems, fmt.Sprintf("region %v outside %dx%d", r, w, h))
		return
	}
	for y := r.Y; y < r.Y2; y++ {
		if r.X2 <= r.X {
			continue
		}
		// read the row back through the accessor and keep only the announced cells (a sub-range
		// that cuts a wide glyph is not returned cell-aligned: known finding, see KF-C11-cut-glyph)
		cells, ok := lineCells(t.StyledLine(0, w, y), vt.Mode())
		if !ok || len(cells) != w {
			if !sh.final && vt.Mode() == termemu.TextReadModeGrapheme {
				sh.deferred = append(sh.deferred, termemu.Region{X: r.X, X2: r.X2, Y: y, Y2: y + 1})
				continue
			}
			sh.problems = append(sh.problems, fmt.Sprintf("StyledLine(0,%d,%d) gave %d cells ok=%v", w, y, len(cells), ok))
			continue
		}
		copy(sh.rows[y][r.X:r.X2], cells[r.X:r.X2])
	}
}

// ---------- case execution ----------

type caseHdr struct {
	id         string
	mode, grid int
	w, h       int
	mask       int // observation mask: bit i = print records with tag i; 0 = all
	rawSpans   int // 1: print the raw span structure of every row (record 11) for the span-terminal model
}

func (h caseHdr) want(tag int) bool { return h.mask == 0 || h.mask&(1<<uint(tag)) != 0 }

type runner struct {
	hdr             caseHdr
	be              *backend
	fe              *frontend
	vt              *termemu.VerifTerm
	done            chan struct{}
	crashed         bool
	crashMsg        string
	wedged          bool
	blocked         bool
	resized         bool
	lockHeldWaiting int
	opidx           int
	fed             int
	out             *bufio.Writer
	loopErr         error
	decoy           *decoyFrontend // non-nil: the terminal was built with this frontend, the recording one attached by SetFrontend
}

func (r *runner) start() {
	r.be = newBackend()
	// every third case runs against a backend that takes replies in pieces of 1 to 3 bytes
	if s := r.hdr.w + 3*r.hdr.h + len(r.hdr.id); s%3 == 0 {
		r.be.short = 1 + s%3 + (s/3)%3
	}
	r.fe = &frontend{}
	mode := termemu.TextReadModeRune
	if r.hdr.mode == 1 {
		mode = termemu.TextReadModeGrapheme
	}
	// every other case builds the terminal with a decoy frontend and attaches the recording one through the
	// public SetFrontend (both buffers must follow it)
	if (r.hdr.w+r.hdr.h+len(r.hdr.id))%2 == 1 {
		r.decoy = &decoyFrontend{}
		r.vt = termemu.VerifNew(r.decoy, r.be, mode, r.hdr.grid != 0, true)
		r.vt.Terminal().SetFrontend(r.fe)
		r.decoy.hits = 0
	} else {
		r.vt = termemu.VerifNew(r.fe, r.be, mode, r.hdr.grid != 0, true)
	}
	r.fe.vt = r.vt
	func() {
		defer func() {
			if e := recover(); e != nil {
				r.crashed = true
				r.crashMsg = fmt.Sprint(e)
			}
		}()
		r.vt.Terminal().Resize(r.hdr.w, r.hdr.h)
	}()
	r.fe.evs = nil
	r.fe.shadow = &shadowScreen{}
	r.be.sizes = nil
	r.done = make(chan struct{})
	go func() {
		defer close(r.done)
		defer func() {
			if e := recover(); e != nil {
				r.crashed = true
				r.crashMsg = fmt.Sprint(e)
			}
		}()
		for {
			if err := r.vt.Step(); err != nil {
				r.loopErr = err
				return
			}
		}
	}()
	r.waitIdle()
	// initial full repaint of the shadow: a frontend starts from a full read
	w, h := r.hdr.w, r.hdr.h
	r.fe.shadow.refresh(r.vt, termemu.Region{X: 0, Y: 0, X2: w, Y2: h})
}

// waitIdle blocks until the loop asks for more input, dies, or the time budget is exceeded.
func (r *runner) waitIdle() {
	if r.crashed {
		return
	}
	select {
	case <-r.be.idle:
	case <-r.done:
	case <-time.After(4 * time.Second):
		r.wedged = true
	}
}

func (r *runner) stop() {
	r.be.close()
	if !r.wedged {
		select {
		case <-r.done:
		case <-time.After(5 * time.Second):
			r.wedged = true
		}
	}
}

func b2i(b bool) int {
	if b {
		return 1
	}
	return 0
}

func (r *runner) printScreen(which int, s *termemu.VerifScreen) {
	o := r.out
	if !r.hdr.want(2) {
		return
	}
	fmt.Fprintf(o, "2 %d %d %d %d %d %d %d %d %d %d %d %d %d\n", which, s.W, s.H, s.CX, s.CY, s.SX, s.SY, s.Top, s.Bottom, b2i(s.AutoWrap), s.FG, s.BG, s.UL)
	if !r.hdr.want(3) {
		return
	}
	for y, row := range s.Rows {
		fmt.Fprintf(o, "3 %d %d", which, y)
		for _, c := range row {
			fmt.Fprintf(o, " %d %d %d %d %d", c.Width, c.FG, c.BG, c.UL, len(c.Text))
			for _, b := range c.Text {
				fmt.Fprintf(o, " %d", b)
			}
		}
		fmt.Fprintln(o)
	}
}

// observe prints the observation records for the operation just performed and
// returns direct-predicate failures found on the implementation's own state.
func (r *runner) observe() []string {
	var problems []string
	o := r.out
	snap := r.vt.Snapshot()
	fmt.Fprintf(o, "1 %d %d 0 0\n", r.opidx, b2i(r.crashed || r.wedged))
	r.printScreen(0, &snap.Main)
	r.printScreen(1, &snap.Alt)
	outBytes := r.be.takeOut()
	if r.hdr.want(4) {
		fmt.Fprint(o, "4")
		for _, b := range outBytes {
			fmt.Fprintf(o, " %d", b)
		}
		fmt.Fprintln(o)
	}
	o = r.maskedWriter(5)
	fmt.Fprintf(o, "5 %d", b2i(snap.OnAlt))
	for _, f := range snap.Flags {
		fmt.Fprintf(o, " %d", b2i(f))
	}
	for _, v := range snap.Ints {
		fmt.Fprintf(o, " %d", v)
	}
	for _, k := range [][]int{snap.KbdMain, snap.KbdAlt} {
		fmt.Fprintf(o, " %d %d", k[0], len(k)-1)
		for _, v := range k[1:] {
			fmt.Fprintf(o, " %d", v)
		}
	}
	fmt.Fprintln(o)
	o = r.maskedWriter(6)
	for i, s := range snap.Strings {
		fmt.Fprintf(o, "6 %d", i)
		for _, b := range []byte(s) {
			fmt.Fprintf(o, " %d", b)
		}
		fmt.Fprintln(o)
	}
	// digest
	bells := 0
	lc := [2]int{-1, -1}
	ls := [3]int64{-1, -1, -1}
	var view []string
	var regs []string
	for _, e := range r.fe.evs {
		switch e.kind {
		case 1:
			bells++
		case 2:
			lc = [2]int{e.a, e.b}
		case 3:
			ls = [3]int64{int64(e.st[0]), int64(e.st[1]), int64(e.st[2])}
		case 4, 5:
			view = append(view, fmt.Sprintf("%d %d %d", e.kind, e.a, e.b))
		case 6:
			s := fmt.Sprintf("6 %d %d", e.a, len(e.s))
			for _, b := range []byte(e.s) {
				s += " " + strconv.Itoa(int(b))
			}
			view = append(view, s)
		case 7:
			view = append(view, fmt.Sprintf("7 %d", e.a))
		case 8:
			regs = append(regs, fmt.Sprintf("%d %d %d %d", e.a, e.b, e.c, e.d))
		}
	}
	o = r.maskedWriter(7)
	fmt.Fprintf(o, "7 %d %d %d %d %d %d", bells, lc[0], lc[1], ls[0], ls[1], ls[2])
	for _, v := range view {
		fmt.Fprint(o, " ", v)
	}
	fmt.Fprintln(o)
	o = r.maskedWriter(8)
	fmt.Fprint(o, "8")
	for _, v := range regs {
		fmt.Fprint(o, " ", v)
	}
	fmt.Fprintln(o)
	// reader state: grapheme state and property of uniseg's packed state (-1 -1 for state -1), forceMergeNext, lastWasRI
	o = r.maskedWriter(10)
	{
		st, fm, ri := r.vt.ReaderState()
		g, pr := -1, -1
		if st >= 0 {
			g, pr = st&15, st>>21
		}
		fmt.Fprintf(o, "10 %d %d %d %d\n", g, pr, b2i(fm), b2i(ri))
	}
	// raw representation of the span buffer: per row the spans as stored and the cached width
	if r.hdr.rawSpans == 1 {
		for which, s := range []*termemu.VerifScreen{&snap.Main, &snap.Alt} {
			for y, row := range s.Spans {
				fmt.Fprintf(r.out, "11 %d %d %d", which, y, len(row))
				for _, sp := range row {
					fmt.Fprintf(r.out, " %d %d %d %d %d %d", sp.FG, sp.BG, b2i(sp.IsText), sp.Rune, sp.Width, len(sp.Text))
					for _, b := range sp.Text {
						fmt.Fprintf(r.out, " %d", b)
					}
				}
				c := 0
				if y < len(s.RowCache) {
					c = s.RowCache[y]
				}
				fmt.Fprintf(r.out, " %d\n", c)
			}
		}
	}

	// ---- direct predicates on the implementation ----
	if !r.crashed && !r.wedged {
		if msg := r.accessorSweep(&snap); msg != "" {
			problems = append(problems, msg)
		}
	}
	if r.crashed {
		problems = append(problems, "C01 panic: "+firstLine(r.crashMsg))
	}
	if r.wedged {
		problems = append(problems, "C01 wedge: loop did not return to the backend read within the time budget")
	}
	if r.decoy != nil && r.decoy.hits > 0 {
		problems = append(problems, fmt.Sprintf("C10 %d callbacks went to the frontend that SetFrontend had replaced", r.decoy.hits))
		r.decoy.hits = 0
	}
	if r.fe.unlocked > 0 {
		problems = append(problems, fmt.Sprintf("C15 %d callbacks ran without the terminal lock", r.fe.unlocked))
		r.fe.unlocked = 0
	}
	for which, s := range []*termemu.VerifScreen{&snap.Main, &snap.Alt} {
		name := []string{"main", "alt"}[which]
		if s.W != snap.Main.W || s.H != snap.Main.H {
			problems = append(problems, "C02 buffers disagree on size")
		}
		if len(s.Rows) != s.H && (s.Grid && !s.GridShapeOK || !s.Grid) {
			problems = append(problems, fmt.Sprintf("C02 %s has %d rows, height %d", name, len(s.Rows), s.H))
		}
		if s.Grid && !s.GridShapeOK {
			problems = append(problems, fmt.Sprintf("C02 %s grid arrays are not HxW", name))
		}
		for y := range s.Rows {
			if s.RowClaimed[y] != s.W || len(s.Rows[y]) != s.W {
				problems = append(problems, fmt.Sprintf("C02 %s row %d is %d/%d cells wide, screen %d", name, y, s.RowClaimed[y], len(s.Rows[y]), s.W))
				break
			}
			if !s.Grid && s.RowCache[y] != s.W {
				problems = append(problems, fmt.Sprintf("C02 %s row %d cached width %d, screen %d", name, y, s.RowCache[y], s.W))
				break
			}
		}
		if s.ZeroWidthSpans > 0 {
			problems = append(problems, fmt.Sprintf("C02 %s stores %d spans of width <= 0", name, s.ZeroWidthSpans))
		}
		if s.WidthMismatches > 0 {
			problems = append(problems, fmt.Sprintf("C02 %s has %d text spans whose text does not fill the claimed width", name, s.WidthMismatches))
		}
		// glyph structure: a head of width w is followed by exactly w-1 continuation cells
		for y, row := range s.Rows {
			bad := false
			for x := 0; x < len(row); {
				w := row[x].Width
				if w <= 0 || x+w > len(row) {
					bad = true
					break
				}
				for i := 1; i < w; i++ {
					if row[x+i].Width != 0 {
						bad = true
					}
				}
				x += w
			}
			if bad {
				problems = append(problems, fmt.Sprintf("C02 %s row %d has a half character (head/continuation cells inconsistent)", name, y))
				break
			}
		}
		if s.CX < 0 || s.CX >= s.W || s.CY < 0 || s.CY >= s.H {
			problems = append(problems, fmt.Sprintf("C02 %s cursor (%d,%d) outside %dx%d", name, s.CX, s.CY, s.W, s.H))
		}
		if s.SX < 0 || s.SX >= s.W || s.SY < 0 || s.SY >= s.H {
			problems = append(problems, fmt.Sprintf("C02 %s saved cursor (%d,%d) outside %dx%d", name, s.SX, s.SY, s.W, s.H))
		}
		if !(0 <= s.Top && s.Top <= s.Bottom && s.Bottom < s.H) {
			problems = append(problems, fmt.Sprintf("C02 %s scroll region [%d,%d] invalid for height %d", name, s.Top, s.Bottom, s.H))
		}
	}
	for _, e := range r.fe.evs {
		if e.kind == 2 && (e.a < 0 || e.a >= snap.Main.W || e.b < 0 || e.b >= snap.Main.H) {
			problems = append(problems, fmt.Sprintf("C02 CursorMoved(%d,%d) outside %dx%d", e.a, e.b, snap.Main.W, snap.Main.H))
			break
		}
	}
	// ---- C10: the shadow copy kept from announcements equals the active screen; last announced values are current ----
	act := &snap.Main
	if snap.OnAlt {
		act = &snap.Alt
	}
	if r.resized {
		// Resize is outside C10's quantifier: a frontend repaints everything after it
		r.resized = false
		if r.vt.T.TryLock() {
			r.fe.shadow.refresh(r.vt, termemu.Region{X: 0, Y: 0, X2: act.W, Y2: act.H})
			r.vt.T.Unlock()
		}
		r.fe.shadow.problems = nil
	}
	if len(r.fe.shadow.deferred) > 0 {
		d := r.fe.shadow.deferred
		r.fe.shadow.deferred = nil
		if !r.crashed && !r.wedged && r.vt.T.TryLock() {
			r.fe.shadow.final = true
			for _, reg := range d {
				if reg.X2 <= act.W && reg.Y2 <= act.H {
					r.fe.shadow.refresh(r.vt, reg)
				}
			}
			r.fe.shadow.final = false
			r.vt.T.Unlock()
		}
	}
	if !r.crashed && !r.wedged && act.RowsOK {
		for _, pr := range r.fe.shadow.problems {
			problems = append(problems, "C10 "+pr)
			break
		}
		r.fe.shadow.problems = nil
		sh := r.fe.shadow.rows
		done := false
		for y := 0; y < len(act.Rows) && y < len(sh) && !done; y++ {
			for x := 0; x < len(act.Rows[y]) && x < len(sh[y]); x++ {
				c, s := act.Rows[y][x], sh[y][x]
				if string(c.Text) != s.text || c.Width != s.w || [3]uint32{c.FG, c.BG, c.UL} != s.st {
					problems = append(problems, fmt.Sprintf("C10 shadow copy differs from the screen at (%d,%d): screen %q w=%d style=%v, copy %q w=%d style=%v",
						x, y, c.Text, c.Width, [3]uint32{c.FG, c.BG, c.UL}, s.text, s.w, s.st))
					done = true
					// resynchronise so that one missed announcement is reported once
					if r.vt.T.TryLock() {
						r.fe.shadow.refresh(r.vt, termemu.Region{X: 0, Y: 0, X2: act.W, Y2: act.H})
						r.vt.T.Unlock()
					}
					break
				}
			}
		}
		if r.fe.haveCursor && (r.fe.lastCX != act.CX || r.fe.lastCY != act.CY) {
			problems = append(problems, fmt.Sprintf("C10 last CursorMoved(%d,%d) but the cursor is at (%d,%d)", r.fe.lastCX, r.fe.lastCY, act.CX, act.CY))
			r.fe.lastCX, r.fe.lastCY = act.CX, act.CY
		}
		if r.fe.haveStyle && r.fe.lastStyle != [3]uint32{act.FG, act.BG, act.UL} {
			problems = append(problems, fmt.Sprintf("C10 last StyleChanged %v but the rendition is %v", r.fe.lastStyle, [3]uint32{act.FG, act.BG, act.UL}))
			r.fe.lastStyle = [3]uint32{act.FG, act.BG, act.UL}
		}
		for i, f := range snap.Flags {
			if v, ok := r.fe.lastFlags[i]; ok && v != b2i(f) {
				problems = append(problems, fmt.Sprintf("C10 last ViewFlagChanged(%d)=%d but the flag is %d", i, v, b2i(f)))
				r.fe.lastFlags[i] = b2i(f)
			}
		}
		for i, f := range snap.Ints {
			if v, ok := r.fe.lastInts[i]; ok && v != f {
				problems = append(problems, fmt.Sprintf("C10 last ViewIntChanged(%d)=%d but the value is %d", i, v, f))
				r.fe.lastInts[i] = f
			}
		}
		for i, f := range snap.Strings {
			if v, ok := r.fe.lastStrs[i]; ok && v != f {
				problems = append(problems, fmt.Sprintf("C10 last ViewStringChanged(%d)=%q but the value is %q", i, v, f))
				r.fe.lastStrs[i] = f
			}
		}
	}
	r.fe.evs = nil
	r.opidx++
	return problems
}

// roundTrip feeds ANSILine(y) of every row of the active screen into a fresh terminal of the same
// size, mode and buffer kind and compares every cell (C11, first sentence).
func (r *runner) roundTrip() string {
	if r.crashed || r.wedged || r.blocked || !r.vt.T.TryLock() {
		return ""
	}
	t := r.vt.Terminal()
	w, h := t.Size()
	lines := make([]string, h)
	for y := 0; y < h; y++ {
		lines[y] = t.ANSILine(y)
	}
	r.vt.T.Unlock()
	orig := r.vt.Snapshot()
	act := &orig.Main
	if orig.OnAlt {
		act = &orig.Alt
	}
	if !act.RowsOK {
		return ""
	}
	be := newBackend()
	fe := &frontend{}
	vt2 := termemu.VerifNew(fe, be, r.vt.Mode(), r.hdr.grid != 0, false)
	msg := ""
	func() {
		defer func() {
			if e := recover(); e != nil {
				msg = "C11 panic while re-interpreting ANSILine output: " + firstLine(fmt.Sprint(e))
			}
		}()
		vt2.Terminal().Resize(w, h)
		var stream []byte
		for y := 0; y < h; y++ {
			stream = append(stream, []byte(fmt.Sprintf("\x1b[%d;1H", y+1))...)
			stream = append(stream, lines[y]...)
		}
		be.push(chunk{data: stream})
		be.close()
		for {
			if err := vt2.Step(); err != nil {
				break
			}
		}
	}()
	if msg != "" {
		return msg
	}
	cp := vt2.Snapshot()
	for y := 0; y < len(act.Rows) && y < len(cp.Main.Rows); y++ {
		for x := 0; x < len(act.Rows[y]) && x < len(cp.Main.Rows[y]); x++ {
			a, b := act.Rows[y][x], cp.Main.Rows[y][x]
			if string(a.Text) != string(b.Text) || a.Width != b.Width || a.FG != b.FG || a.BG != b.BG {
				return fmt.Sprintf("C11 ANSILine round trip differs at (%d,%d): screen %q w=%d fg=%d bg=%d, re-interpreted %q w=%d fg=%d bg=%d; line=%q",
					x, y, a.Text, a.Width, a.FG, a.BG, b.Text, b.Width, b.FG, b.BG, lines[y])
			}
		}
	}
	return ""
}

var discard = bufio.NewWriter(io.Discard)

func (r *runner) maskedWriter(tag int) *bufio.Writer {
	if r.hdr.want(tag) {
		return r.out
	}
	discard.Reset(io.Discard)
	return discard
}

// accessorSweep calls every read accessor with in-range arguments under the
// lock (as the API contract requires) and checks that Line, StyledLine and
// ANSILine describe the same text.
func (r *runner) accessorSweep(snap *termemu.VerifSnapshot) (msg string) {
	t := r.vt.Terminal()
	defer func() {
		if e := recover(); e != nil {
			msg = "C01 accessor panic: " + firstLine(fmt.Sprint(e))
		}
	}()
	// The loop is parked in the backend read.  If it still holds the terminal
	// lock it is waiting inside an escape sequence (known finding D38): skip.
	if !r.vt.T.TryLock() {
		r.lockHeldWaiting++
		return ""
	}
	defer r.vt.T.Unlock()
	res := ""
	w, h := t.Size()
	for y := 0; y < h; y++ {
		line := t.Line(y)
		full := t.StyledLine(0, w, y)
		ansi := t.ANSILine(y)
		if pt := full.PlainTextString(); pt != line && res == "" {
			res = fmt.Sprintf("C02 Line(%d)=%q but StyledLine(0,W,%d) text=%q", y, line, y, pt)
		}
		if st := stripSGR(ansi); st != line && res == "" {
			res = fmt.Sprintf("C02 Line(%d)=%q but ANSILine(%d) text=%q", y, line, y, st)
		}
		sum := 0
		for _, sp := range full.Spans {
			sum += sp.Width
			if sp.Width <= 0 && res == "" {
				res = fmt.Sprintf("C02 StyledLine(0,W,%d) has a run of width %d", y, sp.Width)
			}
		}
		if sum != w && res == "" {
			res = fmt.Sprintf("C02 StyledLine(0,W,%d) runs sum to %d, width %d", y, sum, w)
		}
		for _, xr := range [][2]int{{0, 1}, {w / 2, w - w/2}, {w - 1, 1}, {0, -1}} {
			_ = t.StyledLine(xr[0], xr[1], y)
		}
	}
	_ = t.StyledLines(termemu.Region{X: 0, Y: 0, X2: w, Y2: h})
	_ = t.StyledLines(termemu.Region{X: w / 2, Y: h / 2, X2: w, Y2: h})
	return res
}

// stripSGR removes ESC [ ... m sequences and NUL bytes.
func stripSGR(s string) string {
	var b strings.Builder
	for i := 0; i < len(s); i++ {
		if s[i] == 0x1b && i+1 < len(s) && s[i+1] == '[' {
			j := i + 2
			for j < len(s) && s[j] != 'm' {
				j++
			}
			i = j
			continue
		}
		b.WriteByte(s[i])
	}
	return b.String()
}

func firstLine(s string) string {
	if i := strings.IndexByte(s, '\n'); i >= 0 {
		s = s[:i]
	}
	if len(s) > 160 {
		s = s[:160]
	}
	return s
}

var errInjected = errors.New("injected error")

// runCases reads a case file and prints observations; direct-predicate
// failures are printed as lines "P <case> <op> <text>".
func runCases(in io.Reader, out io.Writer) {
	sc := bufio.NewScanner(in)
	sc.Buffer(make([]byte, 1<<20), 1<<26)
	w := bufio.NewWriterSize(out, 1<<20)
	defer w.Flush()
	var r *runner
	id := ""
	for sc.Scan() {
		line := sc.Text()
		if strings.HasPrefix(line, "#") {
			id = strings.TrimSpace(line[1:])
			continue
		}
		f := strings.Fields(line)
		if len(f) == 0 {
			continue
		}
		nums := make([]int, len(f))
		for i, s := range f {
			nums[i], _ = strconv.Atoi(s)
		}
		switch nums[0] {
		case 100:
			r = &runner{hdr: caseHdr{id: id, mode: nums[1], grid: nums[2], w: nums[3], h: nums[4]}, out: w}
			if len(nums) > 5 {
				r.hdr.mask = nums[5]
			}
			if len(nums) > 6 {
				r.hdr.rawSpans = nums[6]
			}
			fmt.Fprintf(w, "# %s\n", id)
			r.start()
		case 101:
		case 110:
			if r.blocked {
				continue
			}
			if r.crashed || r.wedged {
				// keep printing the frozen state so records stay aligned
			} else {
				data := make([]byte, len(nums)-1)
				for i, v := range nums[1:] {
					data[i] = byte(v)
				}
				r.be.push(chunk{data: data})
				r.waitIdle()
			}
			for _, p := range r.observe() {
				fmt.Fprintf(w, "P %s %d %s\n", r.hdr.id, r.opidx-1, p)
			}
		case 111:
			if r.blocked {
				continue
			}
			if !(r.crashed || r.wedged) && !r.vt.T.TryLock() {
				// the loop holds the lock while it waits for the rest of an escape sequence
				r.blocked = true
				fmt.Fprintf(w, "X blocked Resize would not return: terminal lock held by the read loop\n")
				continue
			} else if !(r.crashed || r.wedged) {
				r.vt.T.Unlock()
			}
			if !(r.crashed || r.wedged) {
				done := make(chan struct{})
				go func() {
					defer close(done)
					defer func() {
						if e := recover(); e != nil {
							r.crashed = true
							r.crashMsg = fmt.Sprint(e)
						}
					}()
					r.vt.Terminal().Resize(nums[1], nums[2])
				}()
				r.resized = true
				select {
				case <-done:
				case <-time.After(1500 * time.Millisecond):
					// the loop holds the lock while it waits for the rest of an escape sequence
					r.blocked = true
					fmt.Fprintf(w, "X blocked Resize did not return: terminal lock held by the read loop\n")
					continue
				}
			}
			for _, p := range r.observe() {
				fmt.Fprintf(w, "P %s %d %s\n", r.hdr.id, r.opidx-1, p)
			}
		case 199:
			if r.hdr.want(9) {
				if msg := r.roundTrip(); msg != "" {
					fmt.Fprintf(w, "P %s %d %s\n", r.hdr.id, r.opidx-1, msg)
				}
			}
			r.stop()
			r = nil
			w.Flush()
		}
	}
	_ = os.Stdout
}
